#!/usr/bin/env python3
"""Generates contracts/c07_stateful_decoder.vrs (the per-reader directive blocks are
identical up to names; generated once and committed — the generator is kept for audit)."""
import os
HERE = os.path.dirname(os.path.abspath(__file__))

PRELUDE = r'''// C07 — position accounting of the stateful decoder: after every successful read of a
// value (any VR), a header, an item header or a skip, the reader's reported position has
// advanced by exactly the number of bytes consumed from the source, and a value read
// consumes exactly the declared number of bytes (the default "accept" strategy for odd
// lengths: no more, no less), so the next element is read from the right position.
//
// Functions under contract (text extracted from /repo on every run):
//   parser/src/stateful/decode.rs: StatefulDecoder::{require_known_length, read_value_ob,
//   read_value_us, _ss, _ul, _sl, _uv, _sv, _fl, _od, _tag, _str, _strs, _da, _ds, _dt, _is, _tm,
//   read_u32, read_to, skip_bytes, decode_header, decode_item_header, read_u32_to_vec}
//
// Shims (trusted, listed in the evidence): `Read::read_exact` / `BasicDecode::decode_*_into` /
// `DecodeFrom::decode_header` consume exactly the bytes they are documented to read (ghost
// counter `consumed`), `io::copy(take(n))` consumes at most n and returns the count, snafu
// contexts keep Ok/Err, text parsing iterator chains are replaced by opaque callees (the
// parsed *content* is not part of this property; control flow and accounting are kept).
use vstd::prelude::*;

verus! {

global size_of usize == 8;

pub struct Error { pub code: u8 }
pub type Result<T> = core::result::Result<T, Error>;
pub struct IoError { pub code: u8 }
pub type IoResult<T> = core::result::Result<T, IoError>;

#[verifier::external_body]
pub fn opaque_error() -> Error { unimplemented!() }

// ---- snafu `.context(..)`: Ok stays Ok with the same value, Err stays Err, None becomes Err
pub trait ContextExt<T>: Sized {
    spec fn ok_value(&self) -> Option<T>;
    fn context_(self) -> (r: Result<T>)
        ensures
            self.ok_value() is Some ==> r == Ok::<T, Error>(self.ok_value()->Some_0),
            self.ok_value() is None ==> r is Err;
}
impl<T, E> ContextExt<T> for core::result::Result<T, E> {
    open spec fn ok_value(&self) -> Option<T> { match self { Ok(v) => Some(*v), Err(_) => None } }
    #[verifier::external_body]
    fn context_(self) -> (r: Result<T>) { unimplemented!() }
}
impl<T> ContextExt<T> for Option<T> {
    open spec fn ok_value(&self) -> Option<T> { *self }
    #[verifier::external_body]
    fn context_(self) -> (r: Result<T>) { unimplemented!() }
}

// ---- core types (shape only) ---------------------------------------------------------
#[derive(PartialEq, Eq, Clone, Copy)]
pub struct Tag(pub u16, pub u16);
#[derive(PartialEq, Eq, Clone, Copy)]
pub enum VR { AE, AS, AT, CS, DA, DS, DT, FL, FD, IS, LO, LT, OB, OD, OF, OL, OV, OW, PN, SH, SL, SQ, SS, ST, SV, TM, UC, UI, UL, UN, UR, US, UT, UV }

#[derive(Clone, Copy)]
pub struct Length(pub u32);
impl Length {
    /// `None` for the undefined length FFFFFFFF
    pub fn get(self) -> (r: Option<u32>)
        ensures r == (if self.0 == 0xFFFF_FFFFu32 { None::<u32> } else { Some(self.0) }),
    {
        if self.0 == 0xFFFF_FFFFu32 { None } else { Some(self.0) }
    }
}

#[derive(Clone, Copy)]
pub struct DataElementHeader { pub tag: Tag, pub vr: VR, pub len: Length }
impl DataElementHeader {
    pub fn length(&self) -> (r: Length) ensures r == self.len { self.len }
    pub fn vr(&self) -> (r: VR) ensures r == self.vr { self.vr }
}
pub struct SequenceItemHeader { pub len: Length }

pub type C<T> = Vec<T>;
pub struct DicomDate { pub v: u32 }
pub struct DicomTime { pub v: u32 }
pub struct DicomDateTime { pub v: u32 }
pub enum PrimitiveValue {
    Empty, Strs(C<String>), Str(String), Tags(C<Tag>), U8(C<u8>), I16(C<i16>), U16(C<u16>), I32(C<i32>), U32(C<u32>),
    I64(C<i64>), U64(C<u64>), F32(C<f32>), F64(C<f64>), Date(C<DicomDate>), DateTime(C<DicomDateTime>), Time(C<DicomTime>),
}

#[verifier::external_body]
pub fn smallvec_from_elem<T: Copy>(elem: T, n: usize) -> (r: Vec<T>)
    ensures r@.len() == n,
{ unimplemented!() }

// ---- trusted shim: std::io::Read with a ghost byte counter ------------------------------------
pub trait Read: Sized {
    spec fn consumed(&self) -> nat;
    /// ghost: number of failures the source has reported so far (C34)
    spec fn errors(&self) -> nat;

    /// `read_exact` fills the whole buffer (consuming exactly that many bytes) or fails
    fn read_exact(&mut self, buf: &mut [u8]) -> (r: IoResult<()>)
        ensures
            final(buf)@.len() == old(buf)@.len(),
            r is Ok ==> final(self).consumed() == old(self).consumed() + old(buf)@.len() && final(self).errors() == old(self).errors(),
            r is Err ==> final(self).errors() == old(self).errors() + 1;

    /// `io::copy(&mut self.by_ref().take(n), &mut out)`: copies until n bytes or end of input
    fn copy_take(&mut self, n: u64) -> (r: IoResult<u64>)
        ensures
            r is Ok ==> r->Ok_0 <= n && final(self).consumed() == old(self).consumed() + r->Ok_0 && final(self).errors() == old(self).errors(),
            r is Err ==> final(self).errors() == old(self).errors() + 1;
}

// ---- trusted shim: dicom_encoding::decode::BasicDecode -----------------------------------------
pub trait BasicDecode {
'''

def basic_into(name, ty, size):
    return f'''    fn {name}<S: Read>(&self, source: &mut S, dst: &mut [{ty}]) -> (r: IoResult<()>)
        ensures
            final(dst)@.len() == old(dst)@.len(),
            r is Ok ==> final(source).consumed() == old(source).consumed() + {size} * old(dst)@.len() && final(source).errors() == old(source).errors();
'''

PRELUDE2 = r'''    fn decode_tag<S: Read>(&self, source: &mut S) -> (r: IoResult<Tag>)
        ensures r is Ok ==> final(source).consumed() == old(source).consumed() + 4 && final(source).errors() == old(source).errors();
}

/// `n_times(n).map(|_| basic.decode_tag(&mut from).context(..)).collect()`: n tags of 4 bytes,
/// stopping at the first error (declared rewrite: iterator adapters are outside Verus' subset)
#[verifier::external_body]
pub fn decode_tags_n<BD: BasicDecode, S: Read>(basic: &BD, from: &mut S, n: usize) -> (r: Result<C<Tag>>)
    ensures
        r is Ok ==> final(from).consumed() == old(from).consumed() + 4 * n && final(from).errors() == old(from).errors(),
{ unimplemented!() }

// ---- trusted shim: dicom_encoding::decode::DecodeFrom (contract proved for the real codecs in C03) ---
pub trait DecodeFrom<S: Read> {
    fn decode_header(&self, source: &mut S) -> (r: Result<(DataElementHeader, usize)>)
        ensures r is Ok ==> final(source).consumed() == old(source).consumed() + r->Ok_0.1 && r->Ok_0.1 <= 12 && final(source).errors() == old(source).errors();
    fn decode_item_header(&self, source: &mut S) -> (r: Result<SequenceItemHeader>)
        ensures r is Ok ==> final(source).consumed() == old(source).consumed() + 8 && final(source).errors() == old(source).errors();
}

pub trait TextCodec {
    fn decode(&self, text: &[u8]) -> Result<String>;
}
pub struct DefaultCharacterSetCodec;
impl TextCodec for DefaultCharacterSetCodec {
    #[verifier::external_body]
    fn decode(&self, text: &[u8]) -> Result<String> { unimplemented!() }
}
#[derive(PartialEq, Eq, Clone, Copy)]
pub enum CharacterSetOverride { None, AnyVr }
pub struct BasicDecoder;          // default type parameters of the struct (never instantiated here)
pub struct SpecificCharacterSet;

/// opaque callees standing for the text-parsing iterator chains (content not part of C07)
#[verifier::external_body] pub fn opaque_strs(buf: &[u8]) -> Result<C<String>> { unimplemented!() }
#[verifier::external_body] pub fn opaque_dates(buf: &[u8]) -> Result<C<DicomDate>> { unimplemented!() }
#[verifier::external_body] pub fn opaque_times(buf: &[u8]) -> Result<C<DicomTime>> { unimplemented!() }
#[verifier::external_body] pub fn opaque_datetimes(buf: &[u8]) -> Result<C<DicomDateTime>> { unimplemented!() }
#[verifier::external_body] pub fn opaque_f64s(buf: &[u8]) -> Result<C<f64>> { unimplemented!() }
#[verifier::external_body] pub fn opaque_i32s(buf: &[u8]) -> Result<C<i32>> { unimplemented!() }
#[verifier::external_body] pub fn opaque_invalid(buf: &[u8]) -> bool { unimplemented!() }
#[verifier::external_body]
pub fn trim_trail_empty_bytes(x: &[u8]) -> (r: &[u8]) ensures r@.len() <= x@.len() { unimplemented!() }
/// `&mut buf[..n]` of a fixed array (mutable sub-slicing is outside Verus' subset): trusted shim
#[verifier::external_body]
pub fn slice_prefix_mut<const N: usize>(buf: &mut [u8; N], n: usize) -> (r: &mut [u8])
    requires n <= N,   // std panics otherwise
    ensures r@.len() == n,
{ unimplemented!() }
#[verifier::external_body]
pub fn vec_resize_u32(v: &mut Vec<u32>, n: usize) ensures final(v)@.len() == n { unimplemented!() }
#[verifier::external_body]
pub fn slice_from_mut_u32(v: &mut Vec<u32>, base: usize) -> (r: &mut [u32])
    requires base <= old(v)@.len(),
    ensures r@.len() == old(v)@.len() - base,
{ unimplemented!() }

/// `Result::inspect(|_| { *position += 8 })`: the closure runs iff the result is Ok (declared rewrite:
/// a closure mutating captured state is outside Verus' subset)
pub trait InspectAdd8: Sized {
    spec fn is_ok_spec(&self) -> bool;
    fn inspect_add8(self, position: &mut u64) -> (r: Self)
        requires *old(position) + 8 <= u64::MAX,
        ensures r == self, *final(position) == (if self.is_ok_spec() { (*old(position) + 8) as u64 } else { *old(position) });
}
impl<T> InspectAdd8 for Result<T> {
    open spec fn is_ok_spec(&self) -> bool { self is Ok }
    #[verifier::external_body]
    fn inspect_add8(self, position: &mut u64) -> (r: Self) { unimplemented!() }
}

/// `.map(|(header, bytes_read)| { self.position += bytes_read as u64; header })` on the decoded header
/// (declared rewrite: a closure mutating captured state is outside Verus' subset)
pub trait MapAddBytesRead: Sized {
    spec fn payload(&self) -> Option<(DataElementHeader, usize)>;
    fn map_add_bytes_read(self, position: &mut u64) -> (r: Result<DataElementHeader>)
        requires self.payload() is Some ==> *old(position) + self.payload()->Some_0.1 <= u64::MAX,
        ensures
            self.payload() is Some ==> r is Ok && r->Ok_0 == self.payload()->Some_0.0
                && *final(position) == (*old(position) + self.payload()->Some_0.1) as u64,
            self.payload() is None ==> r is Err && *final(position) == *old(position);
}
impl MapAddBytesRead for Result<(DataElementHeader, usize)> {
    open spec fn payload(&self) -> Option<(DataElementHeader, usize)> { match self { Ok(v) => Some(*v), Err(_) => None } }
    #[verifier::external_body]
    fn map_add_bytes_read(self, position: &mut u64) -> (r: Result<DataElementHeader>) { unimplemented!() }
}

#[verifier::external_body]
pub fn first_nonzero(v: &Vec<u16>) -> Option<bool> { unimplemented!() }
#[verifier::external_body]
pub fn resize_buffer(v: &mut Vec<u8>, len: usize) ensures final(v)@.len() == len { unimplemented!() }

// ---- bit-vector facts about `len >> k` and `len & (2^k - 1)` ---------------------------------
pub proof fn lemma_split_1(len: usize)
    ensures 2 * (len >> 1usize) + (len & 1usize) == len, (len & 1usize) <= 1,
{
    assert((len >> 1usize) <= 0x7FFF_FFFF_FFFF_FFFFusize && (len & 1usize) <= 1usize) by (bit_vector);
    assert(len == add(mul(2usize, len >> 1usize), len & 1usize)) by (bit_vector);
}
pub proof fn lemma_split_2(len: usize)
    ensures 4 * (len >> 2usize) + (len & 3usize) == len, (len & 3usize) <= 3,
{
    assert((len >> 2usize) <= 0x3FFF_FFFF_FFFF_FFFFusize && (len & 3usize) <= 3usize) by (bit_vector);
    assert(len == add(mul(4usize, len >> 2usize), len & 3usize)) by (bit_vector);
}
pub proof fn lemma_split_3(len: usize)
    ensures 8 * (len >> 3usize) + (len & 7usize) == len, (len & 7usize) <= 7,
{
    assert((len >> 3usize) <= 0x1FFF_FFFF_FFFF_FFFFusize && (len & 7usize) <= 7usize) by (bit_vector);
    assert(len == add(mul(8usize, len >> 3usize), len & 7usize)) by (bit_vector);
}

/*@struct
@file parser/src/stateful/decode.rs
@name StatefulDecoder
@*/

/// the next value can be accounted for without overflowing the 64-bit position
pub open spec fn room(position: u64, n: int) -> bool { position as int + n <= 0xFFFF_FFFF_FFFF_FFFFu64 as int }

impl<D, S, BD, TC> StatefulDecoder<D, S, BD, TC>
where
    D: DecodeFrom<S>,
    BD: BasicDecode,
    S: Read,
    TC: TextCodec,
{
    /// dictionary lookup for Pixel Padding Value etc. — does not touch the source (NOT verified: std dictionary)
    #[verifier::external_body]
    pub fn determine_vr_based_on_pixel_representation(&self, tag: Tag) -> Option<VR> { unimplemented!() }

    /// body of `if header.tag == (0008,0005) { .. set_character_set .. }` in read_value_cs: only replaces the
    /// text codec (declared rewrite; closures over `SpecificCharacterSet::from_code`)
    #[verifier::external_body]
    pub fn update_character_set(&mut self, header: &DataElementHeader, parts: &C<String>) -> (r: Result<()>)
        ensures final(self).position == old(self).position, final(self).from == old(self).from,
    { unimplemented!() }

    /// THE property: position and source advanced by exactly `n` bytes
    pub open spec fn advanced(old_self: Self, new_self: Self, n: int) -> bool {
        &&& new_self.position as int == old_self.position as int + n
        &&& new_self.from.consumed() as int == old_self.from.consumed() as int + n
        // C34: success is only reported when the source reported no failure during the call
        &&& new_self.from.errors() == old_self.from.errors()
    }

/*@fn
@file parser/src/stateful/decode.rs
@fn require_known_length
@header pub
@ret r
@rewrite /\.map\(\|len\| len as usize\)/ => .map(|len: u32| -> (o: usize) ensures o == len as usize { len as usize })
@spec
        ensures
            header.len.0 != 0xFFFF_FFFFu32 ==> r == Ok::<usize, Error>(header.len.0 as usize),
            header.len.0 == 0xFFFF_FFFFu32 ==> r is Err,
@*/
'''

SKIP_REMAINDER = '''
/*@fn
@file parser/src/stateful/decode.rs
@fn skip_remainder
@header pub
@ret r
@rewrite? /&mut buf\\[\\.\\.rem\\]/ => slice_prefix_mut(&mut buf, rem)
@spec
        requires
            rem <= 7,   // the largest remainder a call site passes (len & 7, for the 64-bit readers)
        ensures
            r is Ok ==> final(self).position == old(self).position,
            r is Ok ==> final(self).from.consumed() == old(self).from.consumed() + rem && final(self).from.errors() == old(self).from.errors(),
@*/
'''

VALUE_SPEC = '''        requires
            room(old(self).position, header.len.0 as int),
        ensures
            // on success: exactly the declared number of bytes is consumed and accounted for
            r is Ok ==> Self::advanced(*old(self), *final(self), header.len.0 as int),
'''

def numeric_reader(fn, k):
    return f'''
/*@fn
@file parser/src/stateful/decode.rs
@fn {fn}
@header pub
@ret r
@rewrite /smallvec!\\[([^;\\]]+); (\\w+)\\]/ => smallvec_from_elem(\\1, \\2)
@rewrite /&mut vec\\[\\.\\.\\]/ => vec.as_mut_slice()
@spec
{VALUE_SPEC}@proof after /let n = len >> \\d+;/
        proof {{ lemma_split_{k}(len); }}
@*/
'''


TEXT_COMMON = r"""@rewrite /self\.buffer\.resize_with\(len, Default::default\);/ => resize_buffer(&mut self.buffer, len);
@rewrite /\.read_exact\(&mut self\.buffer\)/ => .read_exact(self.buffer.as_mut_slice())
"""

def value_fn(fn, rewrites, proofs=""):
    return f"""
/*@fn
@file parser/src/stateful/decode.rs
@fn {fn}
@header pub
@ret r
{rewrites}@spec
{VALUE_SPEC}{proofs}@*/
"""

OTHER = []
OTHER.append(value_fn("read_value_us", r"""@rewrite /smallvec!\[([^;\]]+); (\w+)\]/ => smallvec_from_elem(\1, \2)
@rewrite /&mut vec\[\.\.\]/ => vec.as_mut_slice()
@rewrite /vec\.first\(\)\.map\(\|rep\| \*rep != 0\)/ => first_nonzero(&vec)
""", "@proof after /let n = len >> \\d+;/\n        proof { lemma_split_1(len); }\n"))
OTHER.append(value_fn("read_value_ob", r"""@rewrite /smallvec!\[([^;\]]+); (\w+)\]/ => smallvec_from_elem(\1, \2)
@rewrite /\.read_exact\(&mut buf\)/ => .read_exact(buf.as_mut_slice())
"""))
OTHER.append(value_fn("read_value_tag", r"""@rewrite /(?s)let parts: Result<_> = n_times\(ntags\).*?\.collect\(\);/ => let parts: Result<C<Tag>> = decode_tags_n(&self.basic, &mut self.from, ntags);
""", "@proof after /let ntags = len >> \\d+;/\n        proof { lemma_split_2(len); }\n"))
OTHER.append(value_fn("read_value_strs", TEXT_COMMON + r"""@rewrite /(?s)let parts: Result<_> = if use_charset_declared \{.*?\n        \};/ => let parts: Result<C<String>> = opaque_strs(self.buffer.as_slice());
""").replace("            r is Ok ==> Self::advanced", "            r is Ok ==> r->Ok_0 is Strs,\n            r is Ok ==> Self::advanced"))
OTHER.append(value_fn("read_value_str", TEXT_COMMON + r"""@rewrite /&self\.buffer\[\.\.\]/ => self.buffer.as_slice()
"""))
TXT = TEXT_COMMON + r"""@rewrite /trim_trail_empty_bytes\(&self\.buffer\)/ => trim_trail_empty_bytes(self.buffer.as_slice())
@rewrite /buf\.is_empty\(\)/ => buf.len() == 0
"""
VALID = r"""@rewrite /(?s)if validate_\w+\(buf\) != TextValidationOutcome::Ok \{.*?return Err\(opaque_error\(\)\);\s*\}/ => if opaque_invalid(buf) { return Err(opaque_error()); }
"""
OTHER.append(value_fn("read_value_da", TXT + VALID + r"""@rewrite /(?s)let vec: Result<_> = buf\s*\.split.*?\.collect\(\);/ => let vec = opaque_dates(buf);
"""))
OTHER.append(value_fn("read_value_ds", TXT + r"""@rewrite /(?s)let parts: Result<_> = buf\s*\.split.*?\.collect\(\);/ => let parts = opaque_f64s(buf);
"""))
OTHER.append(value_fn("read_value_dt", TXT + VALID + r"""@rewrite /(?s)let vec: Result<_> = buf\s*\.split.*?\.collect\(\);/ => let vec = opaque_datetimes(buf);
"""))
OTHER.append(value_fn("read_value_is", TXT + r"""@rewrite /(?s)let parts: Result<_> = buf\s*\.split.*?\.collect\(\);/ => let parts = opaque_i32s(buf);
"""))
OTHER.append(value_fn("read_value_tm", TXT + VALID + r"""@rewrite /(?s)let vec: std::result::Result<_, _> = buf\s*\.split.*?\.collect\(\);/ => let vec = opaque_times(buf);
"""))


MORE = r"""
/*@fn
@file parser/src/stateful/decode.rs
@fn read_u32
@header pub
@ret r
@rewrite /vec\.resize\(base \+ n, 0\);/ => vec_resize_u32(vec, base + n);
@rewrite /&mut vec\[base\.\.\]/ => slice_from_mut_u32(vec, base)
@spec
        requires
            old(vec)@.len() + n <= usize::MAX,
            room(old(self).position, 4 * n),
        ensures
            r is Ok ==> Self::advanced(*old(self), *final(self), 4 * n),
@*/

/*@fn
@file parser/src/stateful/decode.rs
@fn read_to
@ctx impl<D, S, BD> StatefulDecode for StatefulDecoder<D, S, BD>
@header pub
@ret r
@rewrite /W: std::io::Write,/ => W: Sized,
@rewrite? /Err\(std::io::Error::from\(std::io::ErrorKind::UnexpectedEof\)\)/ => Err::<(), IoError>(IoError { code: 0 })
@rewrite /Self: Sized,/ => 
@spec
        requires
            room(old(self).position, length as int),
        ensures
            r is Ok ==> Self::advanced(*old(self), *final(self), length as int),
@*/

/*@fn
@file parser/src/stateful/decode.rs
@fn skip_bytes
@ctx impl<D, S, BD> StatefulDecode for StatefulDecoder<D, S, BD>
@header pub
@ret r
@rewrite? /Err\(std::io::Error::from\(std::io::ErrorKind::UnexpectedEof\)\)/ => Err::<(), IoError>(IoError { code: 0 })
@spec
        requires
            room(old(self).position, length as int),
        ensures
            r is Ok ==> Self::advanced(*old(self), *final(self), length as int),
@*/

/*@fn
@file parser/src/stateful/decode.rs
@fn decode_item_header
@ctx impl<D, S, BD> StatefulDecode for StatefulDecoder<D, S, BD>
@header pub
@ret r
@rewrite /(?s)\.inspect\(\|_header\| \{\s*self\.position \+= 8;\s*\}\)/ => .inspect_add8(&mut self.position)
@spec
        requires
            room(old(self).position, 8),
        ensures
            r is Ok ==> Self::advanced(*old(self), *final(self), 8),
@*/
"""

MORE2 = r"""
/*@fn
@file parser/src/stateful/decode.rs
@fn decode_header
@ctx impl<D, S, BD> StatefulDecode for StatefulDecoder<D, S, BD>
@header pub
@ret r
@rewrite /(?s)\.map\(\|\(header, bytes_read\)\| \{\s*self\.position \+= bytes_read as u64;\s*header\s*\}\)/ => .map_add_bytes_read(&mut self.position)
@spec
        requires
            room(old(self).position, 12),
        ensures
            // the position advances by exactly the header bytes consumed (8 or 12, as the codec reports)
            r is Ok ==> exists|n: int| 0 <= n <= 12 && Self::advanced(*old(self), *final(self), n),
@proof after /map_add_bytes_read\(&mut self\.position\)\?;/
        proof { assert(Self::advanced(*old(self), *self, self.position as int - old(self).position as int)); }
@*/

/*@fn
@file parser/src/stateful/decode.rs
@fn read_value_cs
@header pub
@ret r
@rewrite /(?s)if header\.tag == Tag\(0x0008, 0x0005\) \{.*\n        \}\n/ => self.update_character_set(header, parts)?;\n
@spec
VALUE_SPEC_PLACEHOLDER@*/

/*@fn
@file parser/src/stateful/decode.rs
@fn read_value
@ctx impl<D, S, BD> StatefulDecode for StatefulDecoder<D, S, BD>
@header pub
@ret r
@rewrite /header\.length\(\) == Length\(0\)/ => header.length().0 == 0
@spec
VALUE_SPEC_PLACEHOLDER@*/

/*@fn
@file parser/src/stateful/decode.rs
@fn read_value_preserved
@ctx impl<D, S, BD> StatefulDecode for StatefulDecoder<D, S, BD>
@header pub
@ret r
@rewrite /header\.length\(\) == Length\(0\)/ => header.length().0 == 0
@spec
VALUE_SPEC_PLACEHOLDER@*/

/*@fn
@file parser/src/stateful/decode.rs
@fn read_value_bytes
@ctx impl<D, S, BD> StatefulDecode for StatefulDecoder<D, S, BD>
@header pub
@ret r
@rewrite /header\.length\(\) == Length\(0\)/ => header.length().0 == 0
@spec
VALUE_SPEC_PLACEHOLDER@*/

/*@fn
@file parser/src/stateful/decode.rs
@fn read_to_vec
@ctx impl<D, S, BD> StatefulDecode for StatefulDecoder<D, S, BD>
@header pub
@ret r
@spec
        requires
            room(old(self).position, length as int),
        ensures
            r is Ok ==> Self::advanced(*old(self), *final(self), length as int),
@*/

/*@fn
@file parser/src/stateful/decode.rs
@fn read_u32_to_vec
@ctx impl<D, S, BD> StatefulDecode for StatefulDecoder<D, S, BD>
@header pub
@ret r
@spec
        requires
            room(old(self).position, length as int),
            old(vec)@.len() + (length as int) <= usize::MAX,
        ensures
            // taken from the property, not from the code: the offset table is an item like any other, so on success exactly the
            // declared number of bytes is consumed and accounted for (whole 32-bit words, then the 0-3 bytes that remain)
            r is Ok ==> Self::advanced(*old(self), *final(self), length as int),
@proof after /^\{/
        proof {
            assert((length >> 2u32) as int * 4 + (length & 3u32) as int == length as int) by { assert((length >> 2u32) * 4 + (length & 3u32) == length) by (bit_vector); }
            assert((length & 3u32) <= 3) by (bit_vector);
        }
@*/

/*@fn
@file parser/src/stateful/decode.rs
@fn position
@ctx impl<D, S, BD> StatefulDecode for StatefulDecoder<D, S, BD>
@header pub
@ret r
@spec
        ensures r == self.position,
@*/
""".replace("VALUE_SPEC_PLACEHOLDER", VALUE_SPEC)

def main():
    out = [PRELUDE]
    for name, ty, size in [("decode_us_into", "u16", 2), ("decode_ss_into", "i16", 2), ("decode_ul_into", "u32", 4),
                           ("decode_sl_into", "i32", 4), ("decode_uv_into", "u64", 8), ("decode_sv_into", "i64", 8),
                           ("decode_fl_into", "f32", 4), ("decode_fd_into", "f64", 8)]:
        out.append(basic_into(name, ty, size))
    out.append(PRELUDE2)
    out.append(SKIP_REMAINDER)
    for fn, k in [("read_value_ss", 1), ("read_value_fl", 2), ("read_value_od", 3), ("read_value_ul", 2),
                  ("read_value_uv", 3), ("read_value_sl", 2), ("read_value_sv", 3)]:
        out.append(numeric_reader(fn, k))
    out += OTHER
    out.append(MORE)
    out.append(MORE2)
    out.append('''}

// vacuity canaries: MUST FAIL
pub proof fn canary_room(position: u64, len: u32)
    requires room(position, len as int),
    ensures false,
{}
pub proof fn canary_skip_remainder(rem: usize)
    requires rem <= 7,
    ensures false,
{}

} // verus!

fn main() {}
''')
    open(os.path.join(HERE, "..", "c07_stateful_decoder.vrs"), "w").write("".join(out))

main()
