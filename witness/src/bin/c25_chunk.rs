//! Witness for unit C25.write_chunk: a PDU whose sub-item content exceeds what its 16-bit
//! length field can express must make `write_pdu` fail (never emit a corrupt PDU).
use dicom_ul::pdu::{read_pdu, write_pdu, AssociationRQ, Pdu, UserVariableItem, MAXIMUM_PDU_SIZE};

fn main() {
    let mut found = false;
    for n in [60_000usize, 65_536, 70_000] {
        let pdu = Pdu::AssociationRQ(AssociationRQ {
            protocol_version: 1,
            calling_ae_title: "A".into(),
            called_ae_title: "B".into(),
            application_context_name: "1.2.840.10008.3.1.1.1".into(),
            presentation_contexts: vec![],
            user_variables: vec![UserVariableItem::Unknown(0x99, vec![7u8; n])],
        });
        let mut out = Vec::new();
        match write_pdu(&mut out, &pdu) {
            Err(_) => {
                if n <= 60_000 { found = true; println!("WITNESS unit=C25.write_chunk item of {} bytes (fits 16 bits) was rejected", n); }
            }
            Ok(()) => {
                let back = read_pdu(&out[..], MAXIMUM_PDU_SIZE, false);
                let same = matches!(&back, Ok(Some(p)) if *p == pdu);
                if !same {
                    found = true;
                    println!("WITNESS unit=C25.write_chunk user item of {} bytes: write_pdu returned Ok ({} bytes) but the output does not read back (read_pdu -> {})",
                        n, out.len(), match back { Ok(Some(_)) => "a different PDU".to_string(), Ok(None) => "incomplete".to_string(), Err(e) => format!("error: {}", e) });
                }
            }
        }
    }
    if !found { println!("no witness: over-long items are rejected, fitting items round-trip"); }
}
