//! Native cross-check for C12 on the compiled code (stand-in; not a deductive result). Exhaustive over
//!   * every valid partial date: years 1..=9999 alone, with every month, with every valid day (Gregorian);
//!   * every valid partial time without fraction: HH, HHMM, HHMMSS with second 0..=60;
//!   * fractions: for 1..=6 digits, the values {0, 1, 9.., 10^n/2, 10^n - 1} on 5 times incl. 23:59:60.
//! For each value: the text written by `to_encoded` parses back to an equal value and consumes all bytes;
//! `earliest()` / `latest()` exist and are the first / last instant consistent with the components
//! (independent calendar / microsecond arithmetic); invalid component combinations are rejected.
use dicom_core::chrono::{NaiveDate, NaiveTime};
use dicom_core::value::deserialize::{parse_date_partial, parse_time_partial};
use dicom_core::value::{AsRange, DicomDate, DicomTime};

fn days_in(y: u16, m: u8) -> u8 {
    match m {
        1 | 3 | 5 | 7 | 8 | 10 | 12 => 31,
        4 | 6 | 9 | 11 => 30,
        _ => if (y % 4 == 0 && y % 100 != 0) || y % 400 == 0 { 29 } else { 28 },
    }
}

struct Tally { cases: u64, bad: u64 }
impl Tally {
    fn fail(&mut self, what: String) {
        self.bad += 1;
        if self.bad <= 8 { println!("WITNESS unit=C12.native {}", what); }
    }
}

fn check_date(t: &mut Tally, d: Result<DicomDate, dicom_core::value::partial::Error>, y: u16, m: Option<u8>, day: Option<u8>) {
    t.cases += 1;
    let label = format!("date year={} month={:?} day={:?}", y, m, day);
    let valid = m.map_or(true, |m| (1..=12).contains(&m)) && day.map_or(true, |dd| dd >= 1 && dd <= 31);
    let d = match (d, valid) {
        (Ok(d), true) => d,
        (Err(_), false) => return,
        (Ok(_), false) => return t.fail(format!("{}: constructor accepted an out-of-range component", label)),
        (Err(e), true) => return t.fail(format!("{}: constructor rejected a valid value: {}", label, e)),
    };
    let text = d.to_encoded();
    let want_len = 4 + if m.is_some() { 2 } else { 0 } + if day.is_some() { 2 } else { 0 };
    if text.len() != want_len { return t.fail(format!("{}: encoded text {:?} has length {}, expected {}", label, text, text.len(), want_len)); }
    match parse_date_partial(text.as_bytes()) {
        Ok((back, rest)) if back == d && rest.is_empty() => {}
        other => return t.fail(format!("{}: text {:?} parses back as {:?}", label, text, other.map(|(v, r)| (v.to_encoded(), r.len())).map_err(|e| e.to_string()))),
    }
    let real_day_ok = match (m, day) { (Some(m), Some(dd)) => dd <= days_in(y, m), _ => true };
    let want_first = NaiveDate::from_ymd_opt(y as i32, m.unwrap_or(1) as u32, day.unwrap_or(1) as u32);
    let want_last = match (m, day) {
        (None, _) => NaiveDate::from_ymd_opt(y as i32, 12, 31),
        (Some(m), None) => NaiveDate::from_ymd_opt(y as i32, m as u32, days_in(y, m) as u32),
        (Some(m), Some(dd)) => NaiveDate::from_ymd_opt(y as i32, m as u32, dd as u32),
    };
    let (e, l) = (d.earliest().ok(), d.latest().ok());
    if real_day_ok {
        if e != want_first || l != want_last {
            t.fail(format!("{}: earliest={:?} latest={:?}, expected {:?} .. {:?}", label, e, l, want_first, want_last));
        }
    } else if e.is_some() || l.is_some() {
        t.fail(format!("{}: the day does not exist in that month, yet earliest={:?} latest={:?}", label, e, l));
    }
}

fn naive(h: u8, m: u8, s: u8, micro: u32) -> Option<NaiveTime> {
    if s == 60 { NaiveTime::from_hms_micro_opt(h as u32, m as u32, 59, 1_000_000 + micro) } else { NaiveTime::from_hms_micro_opt(h as u32, m as u32, s as u32, micro) }
}

fn check_time_text(t: &mut Tally, text: &str, h: u8, m: Option<u8>, s: Option<u8>, frac: Option<(u32, u32)>) {
    t.cases += 1;
    let label = format!("time text {:?}", text);
    let v = match parse_time_partial(text.as_bytes()) {
        Ok((v, rest)) if rest.is_empty() => v,
        other => return t.fail(format!("{}: does not parse completely: {:?}", label, other.map(|(v, r)| (v.to_encoded(), r.len())).map_err(|e| e.to_string()))),
    };
    if v.to_encoded() != text { return t.fail(format!("{}: parsed value writes back as {:?}", label, v.to_encoded())); }
    let (lo_us, hi_us) = match frac { Some((f, n)) => { let unit = 10u32.pow(6 - n); (f * unit, f * unit + unit - 1) } None => (0, 999_999) };
    let want_first = naive(h, m.unwrap_or(0), s.unwrap_or(0), lo_us);
    let want_last = naive(h, m.unwrap_or(59), s.unwrap_or(59), hi_us);
    let (e, l) = (v.earliest().ok(), v.latest().ok());
    if e != want_first || l != want_last {
        t.fail(format!("{}: earliest={:?} latest={:?}, expected {:?} .. {:?}", label, e, l, want_first, want_last));
    }
}

/// date-time values with and without time-zone offsets, and range texts `A-B`, `A-`, `-B`
fn datetimes_and_ranges(t: &mut Tally) {
    use dicom_core::chrono::{FixedOffset, NaiveDateTime, TimeZone};
    use dicom_core::value::deserialize::parse_datetime_partial;
    use dicom_core::value::range::{parse_date_range, parse_time_range, parse_datetime_range};
    use dicom_core::value::PreciseDateTime;
    use dicom_core::value::DicomDateTime;
    let dates = [DicomDate::from_y(1999).unwrap(), DicomDate::from_ym(1999, 2).unwrap(), DicomDate::from_ymd(2000, 2, 29).unwrap(), DicomDate::from_ymd(1999, 12, 31).unwrap()];
    let times = [DicomTime::from_h(7).unwrap(), DicomTime::from_hm(7, 8).unwrap(), DicomTime::from_hms(7, 8, 9).unwrap(), DicomTime::from_hms_milli(7, 8, 9, 50).unwrap(),
                 DicomTime::from_hms_micro(23, 59, 59, 999_999).unwrap(), DicomTime::from_hms_micro(0, 0, 0, 1).unwrap()];
    let offsets: [Option<i32>; 7] = [None, Some(0), Some(3600), Some(-1800), Some(-30 * 60 - 5 * 3600), Some(14 * 3600), Some(-12 * 3600)];
    let zone_text = |secs: i32| format!("{}{:02}{:02}", if secs < 0 { '-' } else { '+' }, secs.abs() / 3600, secs.abs() % 3600 / 60);
    for d in &dates {
        for tm in std::iter::once(None).chain(times.iter().map(Some)) {
            for off in &offsets {
                t.cases += 1;
                let precise_date = d.day().is_some();
                let built = match (tm, off) {
                    (None, None) => Ok(DicomDateTime::from_date(*d)),
                    (None, Some(o)) => Ok(DicomDateTime::from_date_with_time_zone(*d, FixedOffset::east_opt(*o).unwrap())),
                    (Some(tm), None) => DicomDateTime::from_date_and_time(*d, *tm),
                    (Some(tm), Some(o)) => DicomDateTime::from_date_and_time_with_time_zone(*d, *tm, FixedOffset::east_opt(*o).unwrap()),
                };
                let label = format!("date-time {} {:?} offset {:?}", d.to_encoded(), tm.map(|x| x.to_encoded()), off);
                let v = match built {
                    Ok(v) => { if tm.is_some() && !precise_date { t.fail(format!("{}: a time after an imprecise date was accepted", label)); continue; } v }
                    Err(e) => { if tm.is_some() && !precise_date { continue; } t.fail(format!("{}: constructor rejected a valid value: {}", label, e)); continue; }
                };
                let want_text = format!("{}{}{}", d.to_encoded(), tm.map(|x| x.to_encoded()).unwrap_or_default(), off.map(|o| zone_text(o)).unwrap_or_default());
                let text = v.to_encoded();
                if text != want_text { t.fail(format!("{}: encoded as {:?}, expected {:?}", label, text, want_text)); continue; }
                match parse_datetime_partial(text.as_bytes()) {
                    Ok(back) if back == v => {}
                    other => { t.fail(format!("{}: text {:?} parses back as {:?}", label, text, other.map(|x| x.to_encoded()).map_err(|e| e.to_string()))); continue; }
                }
                // earliest / latest: first / last instant consistent with the components, in the value's own offset
                let (e, l) = (v.earliest().ok(), v.latest().ok());
                let de = d.earliest().ok();
                let dl = d.latest().ok();
                let te = tm.map(|x| x.earliest().ok()).unwrap_or(NaiveTime::from_hms_micro_opt(0, 0, 0, 0));
                let tl = tm.map(|x| x.latest().ok()).unwrap_or(NaiveTime::from_hms_micro_opt(23, 59, 59, 999_999));
                let (want_e, want_l) = match (de, dl, te, tl) {
                    (Some(a), Some(b), Some(c), Some(dd)) => (NaiveDateTime::new(a, c), NaiveDateTime::new(b, dd)),
                    _ => { t.fail(format!("{}: components have no bounds", label)); continue; }
                };
                let ok = match off {
                    None => e == Some(PreciseDateTime::Naive(want_e)) && l == Some(PreciseDateTime::Naive(want_l)),
                    Some(o) => {
                        let z = FixedOffset::east_opt(*o).unwrap();
                        e == z.from_local_datetime(&want_e).single().map(PreciseDateTime::TimeZone) && l == z.from_local_datetime(&want_l).single().map(PreciseDateTime::TimeZone)
                    }
                };
                if !ok { t.fail(format!("{}: earliest={:?} latest={:?}, expected local {:?} .. {:?}", label, e, l, want_e, want_l)); }
            }
        }
    }
    // range texts
    for a in &dates { for b in &dates {
        t.cases += 3;
        let (ta, tb) = (a.to_encoded(), b.to_encoded());
        match parse_date_range(format!("{}-{}", ta, tb).as_bytes()) {
            Ok(r) => { if a.earliest().ok() <= b.latest().ok() && (r.start().copied() != a.earliest().ok() || r.end().copied() != b.latest().ok()) { t.fail(format!("date range {}-{} = {:?} .. {:?}", ta, tb, r.start(), r.end())); } }
            Err(e) => { if a.earliest().ok() <= b.latest().ok() { t.fail(format!("date range {}-{} rejected: {}", ta, tb, e)); } }
        }
        match parse_date_range(format!("{}-", ta).as_bytes()) { Ok(r) if r.start().copied() == a.earliest().ok() && r.end().is_none() => {} other => t.fail(format!("date range {}- = {:?}", ta, other.map(|r| (r.start().copied(), r.end().copied())).map_err(|e| e.to_string()))) }
        match parse_date_range(format!("-{}", tb).as_bytes()) { Ok(r) if r.start().is_none() && r.end().copied() == b.latest().ok() => {} other => t.fail(format!("date range -{} = {:?}", tb, other.map(|r| (r.start().copied(), r.end().copied())).map_err(|e| e.to_string()))) }
    } }
    for a in &times { for b in &times {
        t.cases += 3;
        let (ta, tb) = (a.to_encoded(), b.to_encoded());
        match parse_time_range(format!("{}-{}", ta, tb).as_bytes()) {
            Ok(r) => { if a.earliest().ok() <= b.latest().ok() && (r.start().copied() != a.earliest().ok() || r.end().copied() != b.latest().ok()) { t.fail(format!("time range {}-{} = {:?} .. {:?}", ta, tb, r.start(), r.end())); } }
            Err(e) => { if a.earliest().ok() <= b.latest().ok() { t.fail(format!("time range {}-{} rejected: {}", ta, tb, e)); } }
        }
        match parse_time_range(format!("{}-", ta).as_bytes()) { Ok(r) if r.start().copied() == a.earliest().ok() && r.end().is_none() => {} other => t.fail(format!("time range {}- = {:?}", ta, other.map(|r| (r.start().copied(), r.end().copied())).map_err(|e| e.to_string()))) }
        match parse_time_range(format!("-{}", tb).as_bytes()) { Ok(r) if r.start().is_none() && r.end().copied() == b.latest().ok() => {} other => t.fail(format!("time range -{} = {:?}", tb, other.map(|r| (r.start().copied(), r.end().copied())).map_err(|e| e.to_string()))) }
    } }
    // date-time ranges, both ends with the same explicit offset (no ambiguity about the local zone)
    let z = FixedOffset::east_opt(3600).unwrap();
    let dts: Vec<DicomDateTime> = vec![
        DicomDateTime::from_date_with_time_zone(dates[0], z), DicomDateTime::from_date_with_time_zone(dates[3], z),
        DicomDateTime::from_date_and_time_with_time_zone(dates[2], times[2], z).unwrap(), DicomDateTime::from_date_and_time_with_time_zone(dates[3], times[4], z).unwrap(),
    ];
    for a in &dts { for b in &dts {
        t.cases += 1;
        let text = format!("{}-{}", a.to_encoded(), b.to_encoded());
        let (want_s, want_e) = (a.earliest().ok(), b.latest().ok());
        match parse_datetime_range(text.as_bytes()) {
            Ok(r) => { if want_s <= want_e && (r.start() != want_s || r.end() != want_e) { t.fail(format!("date-time range {} = {:?} .. {:?}, expected {:?} .. {:?}", text, r.start(), r.end(), want_s, want_e)); } }
            Err(e) => { if want_s <= want_e { t.fail(format!("date-time range {} rejected: {}", text, e)); } }
        }
    } }
}

fn main() {
    let mut t = Tally { cases: 0, bad: 0 };
    for y in 1..=9999u16 {
        check_date(&mut t, DicomDate::from_y(y), y, None, None);
        for m in 0..=13u8 {
            check_date(&mut t, DicomDate::from_ym(y, m), y, Some(m), None);
            if (1..=12).contains(&m) {
                for d in 0..=32u8 { check_date(&mut t, DicomDate::from_ymd(y, m, d), y, Some(m), Some(d)); }
            }
        }
    }
    for h in 0..24u8 {
        check_time_text(&mut t, &format!("{:02}", h), h, None, None, None);
        match DicomTime::from_h(h) { Ok(v) if v.to_encoded() == format!("{:02}", h) => {} _ => t.fail(format!("from_h({})", h)) }
        for m in 0..60u8 {
            check_time_text(&mut t, &format!("{:02}{:02}", h, m), h, Some(m), None, None);
            match DicomTime::from_hm(h, m) { Ok(v) if v.to_encoded() == format!("{:02}{:02}", h, m) => {} _ => t.fail(format!("from_hm({}, {})", h, m)) }
            for s in 0..=60u8 {
                check_time_text(&mut t, &format!("{:02}{:02}{:02}", h, m, s), h, Some(m), Some(s), None);
                match DicomTime::from_hms(h, m, s) { Ok(v) if v.to_encoded() == format!("{:02}{:02}{:02}", h, m, s) => {} _ => t.fail(format!("from_hms({}, {}, {})", h, m, s)) }
            }
        }
    }
    t.cases += 4;
    if DicomTime::from_h(24).is_ok() || DicomTime::from_hm(0, 60).is_ok() || DicomTime::from_hms(0, 0, 61).is_ok() || DicomTime::from_hms_micro(0, 0, 0, 1_000_000).is_ok() {
        t.fail("an out-of-range time component was accepted by a constructor".to_string());
    }
    for (h, m, s) in [(0u8, 0u8, 0u8), (10, 15, 30), (23, 59, 59), (23, 59, 60), (0, 0, 60)] {
        for n in 1..=6u32 {
            let top = 10u32.pow(n);
            for f in [0, 1, top / 2, top / 10 * 7 + 1, top - 2, top - 1] {
                if f >= top { continue; }
                let text = format!("{:02}{:02}{:02}.{:0width$}", h, m, s, f, width = n as usize);
                check_time_text(&mut t, &text, h, Some(m), Some(s), Some((f, n)));
            }
        }
        for micro in [0u32, 1, 499_999, 999_999] {
            // the precise-time parser reads what to_encoded writes (leap seconds included) and agrees with the value's own conversion
            t.cases += 1;
            if let Ok(v) = DicomTime::from_hms_micro(h, m, s, micro) {
                let text = v.to_encoded();
                let parsed = dicom_core::value::deserialize::parse_time(text.as_bytes()).ok().map(|x| x.0);
                if parsed != naive(h, m, s, micro) || parsed != v.to_naive_time().ok() {
                    t.fail(format!("parse_time({:?}) = {:?}, the value converts to {:?}", text, parsed, v.to_naive_time().ok()));
                }
                let short = format!("{:02}{:02}{:02}", h, m, s);
                if micro == 0 && dicom_core::value::deserialize::parse_time(short.as_bytes()).ok().map(|x| x.0) != naive(h, m, s, 0) {
                    t.fail(format!("parse_time({:?}) does not give {:?}", short, naive(h, m, s, 0)));
                }
            }
            t.cases += 1;
            match DicomTime::from_hms_micro(h, m, s, micro) {
                Ok(v) if v.to_encoded() == format!("{:02}{:02}{:02}.{:06}", h, m, s, micro) && v.earliest().ok() == naive(h, m, s, micro) && v.latest().ok() == naive(h, m, s, micro) => {}
                other => t.fail(format!("from_hms_micro({}, {}, {}, {}) gives {:?}", h, m, s, micro, other.map(|v| v.to_encoded()).map_err(|e| e.to_string()))),
            }
        }
        for milli in [0u32, 1, 500, 999] {
            t.cases += 1;
            match DicomTime::from_hms_milli(h, m, s, milli) {
                Ok(v) if v.to_encoded() == format!("{:02}{:02}{:02}.{:03}", h, m, s, milli) && v.earliest().ok() == naive(h, m, s, milli * 1000) && v.latest().ok() == naive(h, m, s, milli * 1000 + 999) => {}
                other => t.fail(format!("from_hms_milli({}, {}, {}, {}) gives {:?}", h, m, s, milli, other.map(|v| v.to_encoded()).map_err(|e| e.to_string()))),
            }
        }
    }
    datetimes_and_ranges(&mut t);
    println!("EXHAUSTIVE unit=C12.native cases={} mismatches={}", t.cases, t.bad);
}
