//! Native cross-check for C01 at element level on the compiled code (stand-in; not a deductive result):
//! an element written by the real `StatefulEncoder::encode_primitive_element` and read back by the real
//! `StatefulDecoder` (decode_header + read_value / read_value_preserved) in the same transfer syntax
//! (Explicit VR Little Endian, Explicit VR Big Endian; Implicit VR Little Endian with standard attributes
//! of the matching VR) gives the same tag, VR and an equal value — numbers of every width (0-3 items, all
//! signs / bit patterns incl. NaN payloads), bytes, tags with group != element, partial dates / times /
//! date-times, single and multi-valued text — up to the documented normalisations (trailing padding
//! removed; text compared as text), and the decoder's position ends exactly at the end of the element.
use dicom_core::value::{DicomDate, DicomDateTime, DicomTime, PrimitiveValue, C};
use dicom_core::dictionary::{DataDictionary, DataDictionaryEntry, VirtualVr};
use dicom_core::{DataElementHeader, Length, Tag, VR};
use dicom_dictionary_std::StandardDataDictionary;
use dicom_encoding::text::SpecificCharacterSet;
use dicom_encoding::transfer_syntax::TransferSyntax;
use dicom_parser::stateful::decode::{StatefulDecode, StatefulDecoder};
use dicom_parser::stateful::encode::StatefulEncoder;
use dicom_transfer_syntax_registry::entries;

struct Tally { cases: u64, bad: u64 }
impl Tally {
    fn fail(&mut self, what: String) {
        self.bad += 1;
        if self.bad <= 8 { println!("WITNESS unit=C01.elements {}", what); }
    }
}

fn norm_text(v: &PrimitiveValue) -> String {
    v.to_str().trim_end_matches(|c| c == ' ' || c == '\0').to_string()
}

fn same_value(written: &PrimitiveValue, read: &PrimitiveValue, textual: bool) -> bool {
    use PrimitiveValue::*;
    if textual { return norm_text(written) == norm_text(read); }
    match (written, read) {
        (Empty, Empty) => true,
        (w, Empty) => w.multiplicity() == 0,
        (F32(a), F32(b)) => a.len() == b.len() && a.iter().zip(b.iter()).all(|(x, y)| x.to_bits() == y.to_bits()),
        (F64(a), F64(b)) => a.len() == b.len() && a.iter().zip(b.iter()).all(|(x, y)| x.to_bits() == y.to_bits()),
        // an odd number of bytes is padded on the wire with a NUL that a reader cannot tell from data
        (U8(a), U8(b)) => a[..] == b[..] || (a.len() % 2 == 1 && b.len() == a.len() + 1 && b[..a.len()] == a[..] && b[a.len()] == 0),
        (a, b) => a == b,
    }
}

fn round_trip(t: &mut Tally, ts: &TransferSyntax, ts_name: &str, tag: Tag, vr: VR, value: &PrimitiveValue, textual: bool, what: &str) {
    t.cases += 1;
    let label = format!("{} {} VR {} {}", ts_name, tag, vr.to_string(), what);
    let de = DataElementHeader { tag, vr, len: Length(0) };
    let mut out = Vec::new();
    {
        let enc = match ts.encoder_for::<&mut Vec<u8>>() { Some(e) => e, None => return t.fail(format!("{}: no encoder", label)) };
        let mut e = StatefulEncoder::new(&mut out, enc, SpecificCharacterSet::default());
        if let Err(err) = e.encode_primitive_element(&de, value) { return t.fail(format!("{}: writing failed: {}", label, err)); }
    }
    for preserved in [false, true] {
        let mut d = match StatefulDecoder::new_with(&out[..], ts, SpecificCharacterSet::default(), 0) { Ok(d) => d, Err(e) => return t.fail(format!("{}: no decoder: {}", label, e)) };
        let h = match d.decode_header() { Ok(h) => h, Err(e) => { t.fail(format!("{}: header does not read back: {} (bytes {:02X?})", label, e, out)); continue; } };
        if h.tag != tag || h.vr != vr { t.fail(format!("{}: read back as {} VR {} (bytes {:02X?})", label, h.tag, h.vr.to_string(), out)); continue; }
        let v = if preserved { d.read_value_preserved(&h) } else { d.read_value(&h) };
        let v = match v { Ok(v) => v, Err(e) => { t.fail(format!("{}: value does not read back ({}): {} (bytes {:02X?})", label, if preserved { "preserved" } else { "parsed" }, e, out)); continue; } };
        // read_value_preserved keeps dates and times as text: compare with the DICOM text of the written value
        let encoded_text = match value {
            PrimitiveValue::Date(l) => Some(l.iter().map(|x| x.to_encoded()).collect::<Vec<_>>().join("\\")),
            PrimitiveValue::Time(l) => Some(l.iter().map(|x| x.to_encoded()).collect::<Vec<_>>().join("\\")),
            PrimitiveValue::DateTime(l) => Some(l.iter().map(|x| x.to_encoded()).collect::<Vec<_>>().join("\\")),
            _ => None,
        };
        let ok = match (&encoded_text, preserved) {
            (Some(txt), true) => norm_text(&v) == *txt,
            _ => same_value(value, &v, textual),
        };
        if !ok {
            t.fail(format!("{}: written {:?}, read back {:?} ({}; bytes {:02X?})", label, value, v, if preserved { "read_value_preserved" } else { "read_value" }, out));
            continue;
        }
        if d.position() != out.len() as u64 { t.fail(format!("{}: decoder position {} after the element, {} bytes were written", label, d.position(), out.len())); }
    }
}

fn main() {
    let mut t = Tally { cases: 0, bad: 0 };
    let private = Tag(0x0011, 0x1010);
    let syntaxes: [(TransferSyntax, &str, bool); 3] = [
        (entries::EXPLICIT_VR_LITTLE_ENDIAN.erased(), "ExplicitVRLittleEndian", true),
        (entries::EXPLICIT_VR_BIG_ENDIAN.erased(), "ExplicitVRBigEndian", true),
        (entries::IMPLICIT_VR_LITTLE_ENDIAN.erased(), "ImplicitVRLittleEndian", false),
    ];
    for (ts, name, explicit) in &syntaxes {
        // in Implicit VR the VR comes from the dictionary: use a standard attribute of the matching VR
        let tag_for = |vr: VR| -> Option<Tag> {
            if *explicit { return Some(private); }
            Some(match vr {
                VR::US => Tag(0x0028, 0x0010), VR::SS => Tag(0x0018, 0x9219), VR::UL => Tag(0x0008, 0x1161), VR::SL => Tag(0x0018, 0x6020),
                VR::FL => Tag(0x0018, 0x0013), VR::FD => Tag(0x0018, 0x9087), VR::AT => Tag(0x0028, 0x0009), VR::OB => Tag(0x0042, 0x0011),
                VR::UV => Tag(0x0008, 0x040C), VR::SV => Tag(0x0072, 0x0082), VR::OW => Tag(0x0028, 0x1201), VR::DA => Tag(0x0008, 0x0020), VR::TM => Tag(0x0008, 0x0030),
                VR::DT => Tag(0x0008, 0x002A), VR::UI => Tag(0x0008, 0x0018), VR::PN => Tag(0x0010, 0x0010), VR::LO => Tag(0x0008, 0x0070),
                VR::CS => Tag(0x0008, 0x0060), VR::IS => Tag(0x0020, 0x0013), VR::DS => Tag(0x0010, 0x1030), VR::SH => Tag(0x0008, 0x0050),
                _ => return None,
            }).filter(|tag| {
                // the oracle must not guess: keep the attribute only if the dictionary really gives it this exact VR
                matches!(StandardDataDictionary.by_tag(*tag).map(|e| e.vr()), Some(VirtualVr::Exact(v)) if v == vr)
            })
        };
        macro_rules! nums {
            ($var:ident, $ty:ty, $vrs:expr, $vals:expr) => {
                for n in 0..=3usize {
                    for start in 0..=($vals.len() - 3) {
                        let vals: Vec<$ty> = $vals[start..start + n].to_vec();
                        for &vr in $vrs.iter() {
                            if let Some(tag) = tag_for(vr) {
                                round_trip(&mut t, ts, name, tag, vr, &PrimitiveValue::$var(C::from_vec(vals.clone())), false, &format!("{} {:?}", stringify!($var), vals));
                            }
                        }
                    }
                }
            };
        }
        nums!(U16, u16, [VR::US, VR::OW], [0x0102u16, 0xFFFE, 0x8000, 7, 0]);
        nums!(I16, i16, [VR::SS], [-2i16, 0x0102, i16::MIN, 7, -32767]);
        nums!(U32, u32, [VR::UL, VR::OL], [0x01020304u32, 0xFFFF_FFFE, 0x8000_0000, 7, 0x0001_0000]);
        nums!(I32, i32, [VR::SL], [-2i32, 0x01020304, i32::MIN, 7, -0x0102_0304]);
        nums!(U64, u64, [VR::UV, VR::OV], [0x0102030405060708u64, u64::MAX - 1, 1 << 63, 7, 1 << 32]);
        nums!(I64, i64, [VR::SV], [-2i64, 0x0102030405060708, i64::MIN, 7, -0x0102030405060708]);
        nums!(F32, f32, [VR::FL, VR::OF], [1.5f32, -0.25, f32::from_bits(0x7FC0_1234), f32::MIN_POSITIVE, -0.0]);
        nums!(F64, f64, [VR::FD, VR::OD], [1.5f64, -0.25, f64::from_bits(0x7FF8_0000_0000_1234), f64::MIN_POSITIVE, -0.0]);
        let tags = [Tag(0x0008, 0x0018), Tag(0x7FE0, 0x0010), Tag(0x0054, 0x0010), Tag(0xFFFE, 0xE000)];
        for n in 0..=3usize { for start in 0..=(tags.len() - 3) {
            if let Some(tag) = tag_for(VR::AT) {
                round_trip(&mut t, ts, name, tag, VR::AT, &PrimitiveValue::Tags(C::from_vec(tags[start..start + n].to_vec())), false, &format!("Tags {:?}", &tags[start..start + n]));
            }
        } }
        for n in 0..=5usize {
            let v: Vec<u8> = (0..n as u8).map(|i| 0xF0 + i).collect();
            for vr in [VR::OB, VR::UN] { if let Some(tag) = tag_for(vr) { round_trip(&mut t, ts, name, tag, vr, &PrimitiveValue::U8(C::from_vec(v.clone())), false, &format!("U8 x{}", n)); } }
        }
        let dates = [DicomDate::from_y(1999).unwrap(), DicomDate::from_ym(1999, 12).unwrap(), DicomDate::from_ymd(1999, 12, 31).unwrap()];
        let times = [DicomTime::from_h(7).unwrap(), DicomTime::from_hm(7, 8).unwrap(), DicomTime::from_hms(7, 8, 9).unwrap(), DicomTime::from_hms_milli(7, 8, 9, 123).unwrap(), DicomTime::from_hms_micro(23, 59, 60, 1).unwrap()];
        if let Some(tag) = tag_for(VR::DA) {
            for a in &dates {
                round_trip(&mut t, ts, name, tag, VR::DA, &PrimitiveValue::Date(C::from_vec(vec![*a])), false, &format!("Date [{}]", a.to_encoded()));
                for b in &dates { round_trip(&mut t, ts, name, tag, VR::DA, &PrimitiveValue::Date(C::from_vec(vec![*a, *b])), false, &format!("Date [{}, {}]", a.to_encoded(), b.to_encoded())); }
            }
        }
        if let Some(tag) = tag_for(VR::TM) {
            for a in &times {
                round_trip(&mut t, ts, name, tag, VR::TM, &PrimitiveValue::Time(C::from_vec(vec![*a])), false, &format!("Time [{}]", a.to_encoded()));
                for b in &times { round_trip(&mut t, ts, name, tag, VR::TM, &PrimitiveValue::Time(C::from_vec(vec![*a, *b])), false, &format!("Time [{}, {}]", a.to_encoded(), b.to_encoded())); }
            }
        }
        if let Some(tag) = tag_for(VR::DT) {
            for d in &dates {
                let dt = DicomDateTime::from_date(*d);
                round_trip(&mut t, ts, name, tag, VR::DT, &PrimitiveValue::DateTime(C::from_vec(vec![dt])), false, &format!("DateTime [{}]", dt.to_encoded()));
            }
            for a in &times {
                let dt = DicomDateTime::from_date_and_time(dates[2], *a).unwrap();
                round_trip(&mut t, ts, name, tag, VR::DT, &PrimitiveValue::DateTime(C::from_vec(vec![dt])), false, &format!("DateTime [{}]", dt.to_encoded()));
            }
        }
        let ascii = ["", "A", "AB", "ABC", "1.2.840", "ABCDE"];
        for vr in [VR::AE, VR::CS, VR::LO, VR::PN, VR::SH, VR::UI, VR::LT, VR::ST, VR::UT, VR::UC, VR::UR] {
            if let Some(tag) = tag_for(vr) {
                for s in ascii { round_trip(&mut t, ts, name, tag, vr, &PrimitiveValue::Str(s.to_string()), true, &format!("Str {:?}", s)); }
                if !matches!(vr, VR::LT | VR::ST | VR::UT | VR::UR) {
                    for a in &ascii[1..4] { for b in &ascii[1..4] {
                        round_trip(&mut t, ts, name, tag, vr, &PrimitiveValue::Strs(C::from_vec(vec![a.to_string(), b.to_string()])), true, &format!("Strs [{:?}, {:?}]", a, b));
                    } }
                }
            }
        }
        // text corner cases: a backslash inside the VRs that are never multi-valued, empty middle values, leading spaces,
        // values ending in '0' next to the padding, odd lengths
        for vr in [VR::LT, VR::ST, VR::UT, VR::UR] {
            if let Some(tag) = tag_for(vr) {
                for s in ["A\\B", "line one\\line two\\", "  leading", "x\\"] {
                    t.cases += 1;
                    let v = PrimitiveValue::Str(s.to_string());
                    let de = DataElementHeader { tag, vr, len: Length(0) };
                    let mut out = Vec::new();
                    { let enc = ts.encoder_for::<&mut Vec<u8>>().unwrap(); let mut e = StatefulEncoder::new(&mut out, enc, SpecificCharacterSet::default()); if e.encode_primitive_element(&de, &v).is_err() { t.fail(format!("{} VR {} Str {:?}: writing failed", name, vr.to_string(), s)); continue; } }
                    let mut d = StatefulDecoder::new_with(&out[..], ts, SpecificCharacterSet::default(), 0).unwrap();
                    let back = d.decode_header().ok().and_then(|h| d.read_value(&h).ok());
                    let ok = match &back { Some(b) => b.multiplicity() <= 1 && b.to_str().trim_end_matches(' ') == s.trim_end_matches(' '), None => false };
                    if !ok { t.fail(format!("{} VR {} Str {:?}: read back {:?} (a backslash is part of the text in this VR; leading spaces are significant)", name, vr.to_string(), s, back)); }
                    // the same through the reading strategy that the data set readers use by default (values preserved as text)
                    t.cases += 1;
                    let mut d = StatefulDecoder::new_with(&out[..], ts, SpecificCharacterSet::default(), 0).unwrap();
                    let back = d.decode_header().ok().and_then(|h| d.read_value_preserved(&h).ok());
                    let ok = match &back { Some(b) => b.multiplicity() <= 1 && b.to_str().trim_end_matches(' ') == s.trim_end_matches(' '), None => false };
                    if !ok { t.fail(format!("{} VR {} Str {:?}: read back (values preserved) as {:?} (a backslash is part of the text in this VR; leading spaces are significant)", name, vr.to_string(), s, back)); }
                }
            }
        }
        for vr in [VR::LO, VR::SH, VR::CS, VR::PN, VR::UI, VR::AE] {
            if let Some(tag) = tag_for(vr) {
                for vals in [vec!["A", "", "B"], vec!["", "B"], vec!["A", ""], vec!["10", "20", "30"], vec!["1.2.30", "1.2.300"], vec!["A0"], vec!["100"]] {
                    round_trip(&mut t, ts, name, tag, vr, &PrimitiveValue::Strs(C::from_vec(vals.iter().map(|x| x.to_string()).collect())), true, &format!("Strs {:?}", vals));
                    // item-wise: the number of values and each value must survive (not only the joined text)
                    t.cases += 1;
                    let v = PrimitiveValue::Strs(C::from_vec(vals.iter().map(|x| x.to_string()).collect()));
                    let de = DataElementHeader { tag, vr, len: Length(0) };
                    let mut out = Vec::new();
                    { let enc = ts.encoder_for::<&mut Vec<u8>>().unwrap(); let mut e = StatefulEncoder::new(&mut out, enc, SpecificCharacterSet::default()); if e.encode_primitive_element(&de, &v).is_err() { t.fail(format!("{} VR {} Strs {:?}: writing failed", name, vr.to_string(), vals)); continue; } }
                    let mut d = StatefulDecoder::new_with(&out[..], ts, SpecificCharacterSet::default(), 0).unwrap();
                    let back = d.decode_header().ok().and_then(|h| d.read_value(&h).ok());
                    let items: Option<Vec<String>> = back.as_ref().map(|b| b.to_multi_str().iter().map(|x| x.trim_end_matches(|c| c == ' ' || c == '\0').to_string()).collect());
                    let want: Vec<String> = vals.iter().map(|x| x.to_string()).collect();
                    // a trailing empty value cannot be told from padding: compare up to trailing empties
                    let strip = |mut v: Vec<String>| { while v.last().map_or(false, |x| x.is_empty()) { v.pop(); } v };
                    if items.clone().map(strip) != Some(strip(want.clone())) { t.fail(format!("{} VR {} Strs {:?}: read back as {:?}", name, vr.to_string(), vals, items)); }
                }
            }
        }
        for vr in [VR::IS, VR::DS] {
            if let Some(tag) = tag_for(vr) {
                for s in ["7", "12", "-123", "1\\22\\333"] { round_trip(&mut t, ts, name, tag, vr, &PrimitiveValue::Str(s.to_string()), true, &format!("Str {:?}", s)); }
                round_trip(&mut t, ts, name, tag, vr, &PrimitiveValue::I32(C::from_vec(vec![-12, 7])), true, "I32 [-12, 7] written as text");
            }
        }
    }
    println!("EXHAUSTIVE unit=C01.elements cases={} mismatches={}", t.cases, t.bad);
}
