//! Witness search for unit C18.encode_default: call the real default
//! `PixelDataWriter::encode` with an adapter whose `encode_frame` emits frames of
//! chosen lengths and compare the basic offset table with the PS3.5 A.4 value; every fragment is the frame's bytes
//! padded to even length with one zero byte.
use dicom_core::ops::AttributeOp;
use dicom_encoding::adapters::{EncodeOptions, EncodeResult, PixelDataObject, PixelDataWriter, RawPixelData};
use std::borrow::Cow;

struct Obj(u32);
impl PixelDataObject for Obj {
    fn transfer_syntax_uid(&self) -> &str { "1.2.840.10008.1.2.1" }
    fn rows(&self) -> Option<u16> { Some(1) }
    fn cols(&self) -> Option<u16> { Some(1) }
    fn samples_per_pixel(&self) -> Option<u16> { Some(1) }
    fn bits_allocated(&self) -> Option<u16> { Some(8) }
    fn bits_stored(&self) -> Option<u16> { Some(8) }
    fn photometric_interpretation(&self) -> Option<&str> { Some("MONOCHROME2") }
    fn number_of_frames(&self) -> Option<u32> { Some(self.0) }
    fn number_of_fragments(&self) -> Option<u32> { None }
    fn fragment(&self, _fragment: usize) -> Option<Cow<'_, [u8]>> { None }
    fn offset_table(&self) -> Option<Cow<'_, [u32]>> { None }
    fn raw_pixel_data(&self) -> Option<RawPixelData> { None }
}

struct W(Vec<usize>);
impl PixelDataWriter for W {
    fn encode_frame(&self, _src: &dyn PixelDataObject, frame: u32, _o: EncodeOptions, dst: &mut Vec<u8>) -> EncodeResult<Vec<AttributeOp>> {
        dst.extend(std::iter::repeat(frame as u8).take(self.0[frame as usize]));
        Ok(vec![])
    }
}

fn main() {
    // enumerate frame-length vectors: up to 3 frames of lengths 0..=9, and 4 frames of lengths 0..=5
    let mut tried = 0u32;
    for n in 1..=4usize {
        let top = if n == 4 { 5 } else { 9 };
        let mut lens = vec![0usize; n];
        loop {
            tried += 1;
            let w = W(lens.clone());
            let (mut dst, mut bot) = (Vec::new(), Vec::new());
            let r = w.encode(&Obj(n as u32), EncodeOptions::default(), &mut dst, &mut bot);
            let mut expect = Vec::new();
            let mut off = 0u32;
            for l in &lens {
                expect.push(off);
                off += 8 + *l as u32 + (*l as u32 % 2);
            }
            // every fragment has even length: the frame's bytes, and one zero byte of padding when the frame is odd
            let frag_ok = dst.len() == n && dst.iter().zip(&lens).enumerate().all(|(i, (f, l))| f.len() == *l + *l % 2 && f[..*l].iter().all(|b| *b == i as u8) && f[*l..].iter().all(|b| *b == 0));
            if r.is_err() || bot != expect || !frag_ok {
                println!("WITNESS unit=C18.encode_default frame_lengths={:?} offset_table={:?} expected={:?} fragments_ok={}", lens, bot, expect, frag_ok);
                println!("reproduce: cargo run --offline --manifest-path /verif/witness/Cargo.toml --bin c18_encode");
                println!("EXHAUSTIVE unit=C18.encode_native cases={} mismatches=1", tried);
                return;
            }
            // next vector
            let mut i = 0;
            while i < n { lens[i] += 1; if lens[i] <= top { break; } lens[i] = 0; i += 1; }
            if i == n { break; }
        }
    }
    println!("no witness: {} frame-length vectors (<=4 frames, lengths 0..=9, 0..=5 for 4 frames) agree with the spec", tried);
    println!("EXHAUSTIVE unit=C18.encode_native cases={} mismatches=0", tried);
}
