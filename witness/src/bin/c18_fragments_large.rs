//! Native demonstration for finding S5b (C18): `Fragments::new` computed the number of
//! fragments in `f32`, so for |data| > 2^24 a trailing byte could be dropped. Beyond any
//! CBMC bound and outside Verus (floats); found by reading, shown here on the real code.
use dicom_core::value::fragments::Fragments;
use dicom_core::value::{InMemFragment, PixelFragmentSequence};

fn main() {
    let mut bad = 0;
    for (n, fs) in [((1usize << 24) + 1, 2u32), ((1 << 24) + 3, 2), ((1 << 25) + 2, 4), (100_000_001, 10)] {
        let mut data = vec![7u8; n];
        data[n - 1] = 9; // the last byte must survive
        let seq: PixelFragmentSequence<InMemFragment> = vec![Fragments::new(data, fs)].into();
        let total: usize = seq.fragments().iter().map(|f| f.len()).sum();
        let all: Vec<u8> = seq.fragments().iter().flat_map(|f| f.iter().copied()).collect();
        let ok = total >= n && all[n - 1] == 9;
        if !ok {
            bad += 1;
            println!("WITNESS unit=C18.fragments_new data_len={} fragment_size={} bytes_in_fragments={} (data byte dropped)", n, fs, total);
        }
    }
    if bad == 0 {
        println!("no witness: large inputs keep every data byte");
    }
}
