//! Pipeline canary: this harness MUST fail. The runner checks that it does, so a
//! broken toolchain / parser that reports everything as success is noticed.
use dicom_core::VR;

#[kani::proof]
#[kani::unwind(4)]
pub fn canary_must_fail() {
    let a: u8 = kani::any();
    let b: u8 = kani::any();
    // claims every two-byte code is a VR: false
    assert!(VR::from_binary([a, b]).is_some(), "canary: deliberately false claim");
}
