//! Native stand-in for the writer clause of C26 on the compiled code (not a deductive result): a real
//! association over a loopback TCP connection in this process (acceptor maximum PDU length = the minimum
//! the library allows); the requestor sends payloads of sizes around the multiples of the maximum data
//! length through `send_pdata(..)` with several write-chunk schedules (all at once, byte by byte, fixed
//! chunks of 7 / 500 / 1000 bytes, chunks straddling the PDU boundary); the acceptor receives the raw
//! PDUs. For every message: every PDU is a P-DATA-TF whose length does not exceed the maximum, carries
//! exactly one value for the chosen presentation context, only the final one is marked last, and the
//! values concatenate to the payload. And a hand-written acceptor that announces a maximum PDU length of 1 / 4 / 5 / 6 (no room for
//! data: the writer must fail, not panic) and of 7 / 8 / 20 (1, 2, 14 data bytes per PDU: the message must arrive).
use dicom_ul::association::client::ClientAssociationOptions;
use dicom_ul::association::server::ServerAssociationOptions;
use dicom_ul::pdu::{write_pdu, Pdu, MINIMUM_PDU_SIZE};
use std::io::Write;

const ABSTRACT: &str = "1.2.840.10008.1.1";

struct Tally { cases: u64, bad: u64 }
impl Tally {
    fn fail(&mut self, what: String) {
        self.bad += 1;
        if self.bad <= 8 { println!("WITNESS unit=C26.writer_messages {}", what); }
    }
}

fn main() {
    let max = MINIMUM_PDU_SIZE;
    // the unit needs a loopback TCP connection inside this process; where the sandbox forbids even that, it is skipped (never an alarm)
    let listener = match std::net::TcpListener::bind("127.0.0.1:0") {
        Ok(l) => l,
        Err(e) => { println!("SKIPPED unit=C26.writer_messages reason=loopback TCP unavailable: {}", e); return; }
    };
    let addr = listener.local_addr().unwrap();
    // (payload, chunk schedule description, chunk sizes)
    let data_max = (max - 6) as usize; // PDU length = PDV length field (4) + context id + control header + data
    let mut sizes: Vec<usize> = vec![0, 1, 2, data_max - 1, data_max, data_max + 1, 2 * data_max - 1, 2 * data_max, 2 * data_max + 1, 3 * data_max, 3 * data_max + 5];
    sizes.dedup();
    let schedules: Vec<(&str, Vec<usize>)> = vec![
        ("one write", vec![usize::MAX]), ("1-byte writes", vec![1]), ("7-byte writes", vec![7]), ("500-byte writes", vec![500]), ("1000-byte writes", vec![1000]),
        ("writes straddling the PDU boundary", vec![data_max - 3, 10, data_max]), ("an empty write first", vec![0, 13, usize::MAX]),
    ];
    let total = sizes.len() * schedules.len();
    let server = std::thread::spawn(move || -> Result<Vec<Vec<(u32, usize, u8, bool, Vec<u8>)>>, String> {
        let (stream, _) = listener.accept().map_err(|e| e.to_string())?;
        let scp = ServerAssociationOptions::new().accept_any().with_abstract_syntax(ABSTRACT).max_pdu_length(max);
        let mut assoc = scp.establish(stream).map_err(|e| e.to_string())?;
        let mut messages = Vec::new();
        let mut current = Vec::new();
        loop {
            match assoc.receive().map_err(|e| e.to_string())? {
                Pdu::PData { data } => {
                    let mut bytes = Vec::new();
                    write_pdu(&mut bytes, &Pdu::PData { data: data.clone() }).map_err(|e| e.to_string())?;
                    let len_field = u32::from_be_bytes([bytes[2], bytes[3], bytes[4], bytes[5]]);
                    let n = data.len();
                    let (ctx, last, payload) = data.first().map(|v| (v.presentation_context_id, v.is_last, v.data.clone())).unwrap_or((0, false, vec![]));
                    let all_last = data.iter().any(|v| v.is_last);
                    let mut payload_all = payload.clone();
                    for v in data.iter().skip(1) { payload_all.extend_from_slice(&v.data); }
                    current.push((len_field, n, ctx, last, payload_all));
                    if all_last { messages.push(std::mem::take(&mut current)); }
                }
                Pdu::ReleaseRQ => { let _ = assoc.send(&Pdu::ReleaseRP); break; }
                other => return Err(format!("unexpected PDU {}", other.short_description())),
            }
        }
        if !current.is_empty() { messages.push(current); }
        Ok(messages)
    });
    let mut t = Tally { cases: 0, bad: 0 };
    let mut sent: Vec<(Vec<u8>, String)> = Vec::new();
    let mut client = match ClientAssociationOptions::new().with_abstract_syntax(ABSTRACT).establish(addr) {
        Ok(c) => c,
        Err(e) => { println!("SKIPPED unit=C26.writer_messages reason=could not associate over loopback: {}", e); return; }
    };
    let ctx = client.presentation_contexts()[0].id;
    if client.acceptor_max_pdu_length() != max { println!("WITNESS unit=C26.writer_messages acceptor maximum {} not taken over ({})", max, client.acceptor_max_pdu_length()); }
    let mut counter = 0u8;
    for size in &sizes {
        for (name, chunks) in &schedules {
            let payload: Vec<u8> = (0..*size).map(|_| { counter = counter.wrapping_add(1); counter }).collect();
            let label = format!("payload of {} bytes, {}", size, name);
            let mut w = client.send_pdata(ctx);
            let mut pos = 0;
            let mut k = 0;
            let mut err = None;
            while pos < payload.len() || (k < chunks.len() && chunks[k] == 0) {
                let c = chunks[k.min(chunks.len() - 1)].min(payload.len() - pos);
                if let Err(e) = w.write_all(&payload[pos..pos + c]) { err = Some(e.to_string()); break; }
                pos += c;
                k += 1;
                if c == 0 && k >= chunks.len() { break; }
            }
            if err.is_none() { if let Err(e) = w.finish() { err = Some(e.to_string()); } } else { drop(w); }
            if let Some(e) = err { t.cases += 1; t.fail(format!("{}: the writer failed: {}", label, e)); }
            sent.push((payload, label));
        }
    }
    let _ = client.release();
    let received = match server.join() { Ok(Ok(m)) => m, Ok(Err(e)) => { println!("WITNESS unit=C26.writer_messages acceptor side failed: {}", e); println!("EXHAUSTIVE unit=C26.writer_messages cases={} mismatches={}", total, 1); return; } Err(_) => { println!("EXHAUSTIVE unit=C26.writer_messages cases={} mismatches={}", total, 1); return; } };
    if received.len() != sent.len() { t.cases += 1; t.fail(format!("{} messages sent, {} messages (runs of PDUs ending with a last fragment) received", sent.len(), received.len())); }
    for ((payload, label), pdus) in sent.iter().zip(received.iter()) {
        t.cases += 1;
        let mut got = Vec::new();
        let mut problem = None;
        for (i, (len_field, n, c, last, data)) in pdus.iter().enumerate() {
            if *len_field > max { problem = Some(format!("PDU {} has length {} > maximum {}", i, len_field, max)); }
            if *n != 1 { problem = Some(format!("PDU {} carries {} values", i, n)); }
            if *c != ctx { problem = Some(format!("PDU {} is for presentation context {} instead of {}", i, c, ctx)); }
            if *last != (i + 1 == pdus.len()) { problem = Some(format!("PDU {} of {} has last = {}", i, pdus.len(), last)); }
            got.extend_from_slice(data);
        }
        if problem.is_none() && got != *payload { problem = Some(format!("the values concatenate to {} bytes that differ from the {} bytes sent (first difference at {:?})", got.len(), payload.len(), got.iter().zip(payload.iter()).position(|(a, b)| a != b))); }
        if let Some(p) = problem { t.fail(format!("{}: {} (PDU lengths {:?})", label, p, pdus.iter().map(|x| x.0).collect::<Vec<_>>())); }
    }
    tiny_maximum(&mut t);
    println!("EXHAUSTIVE unit=C26.writer_messages cases={} mismatches={}", t.cases, t.bad);
}

/// a peer may announce ANY maximum PDU length: with 1..=6 no data byte fits behind the PDV header, and the writer must say so with an
/// error (never a panic, never an endless run of empty PDUs); with 7, 8, 20 every PDU carries 1, 2, 14 bytes and the message arrives.
/// The acceptor is hand-written (raw TCP): it answers the request with an A-ASSOCIATE-AC announcing that maximum and collects PDUs.
fn tiny_maximum(t: &mut Tally) {
    use dicom_ul::pdu::*;
    use std::io::Read;
    for max in [1u32, 4, 5, 6, 7, 8, 20] {
        t.cases += 1;
        let listener = match std::net::TcpListener::bind("127.0.0.1:0") { Ok(l) => l, Err(_) => { t.cases -= 1; return; } };
        let addr = listener.local_addr().unwrap();
        let peer = std::thread::spawn(move || -> Option<Vec<u8>> {
            let (mut s, _) = listener.accept().ok()?;
            s.set_read_timeout(Some(std::time::Duration::from_secs(30))).ok()?;
            let mut read_one = |s: &mut std::net::TcpStream| -> Option<Pdu> {
                let mut head = [0u8; 6];
                s.read_exact(&mut head).ok()?;
                let len = u32::from_be_bytes([head[2], head[3], head[4], head[5]]) as usize;
                let mut all = head.to_vec();
                all.resize(6 + len, 0);
                s.read_exact(&mut all[6..]).ok()?;
                read_pdu(&mut std::io::Cursor::new(&all[..]), MAXIMUM_PDU_SIZE, false).ok()?
            };
            let contexts = match read_one(&mut s)? { Pdu::AssociationRQ(rq) => rq.presentation_contexts, _ => return None };
            let ac = Pdu::AssociationAC(AssociationAC { protocol_version: 1, calling_ae_title: "THIS-SCU".into(), called_ae_title: "ANY-SCP".into(), application_context_name: "1.2.840.10008.3.1.1.1".into(),
                presentation_contexts: contexts.iter().map(|c| PresentationContextResult { id: c.id, reason: PresentationContextResultReason::Acceptance, transfer_syntax: "1.2.840.10008.1.2".into() }).collect(),
                user_variables: vec![UserVariableItem::MaxLength(max), UserVariableItem::ImplementationClassUID("1.2.3".into())] });
            let mut bytes = Vec::new();
            write_pdu(&mut bytes, &ac).ok()?;
            s.write_all(&bytes).ok()?;
            let mut got = Vec::new();
            let mut pdus = 0;
            loop {
                match read_one(&mut s) {
                    Some(Pdu::PData { data }) => { pdus += 1; if pdus > 200 { return Some(got); } for v in data { got.extend_from_slice(&v.data); if v.is_last { return Some(got); } } }
                    _ => return Some(got),
                }
            }
        });
        let payload: Vec<u8> = (0..32u8).collect();
        let outcome = std::panic::catch_unwind(std::panic::AssertUnwindSafe(|| -> Result<Result<(), String>, String> {
            let mut client = ClientAssociationOptions::new().with_abstract_syntax(ABSTRACT).establish(addr).map_err(|e| e.to_string())?;
            let ctx = client.presentation_contexts()[0].id;
            let mut w = client.send_pdata(ctx);
            let r = w.write_all(&payload).and_then(|_| w.finish()).map_err(|e| e.to_string());
            let _ = client.abort();
            Ok(r)
        }));
        let received = peer.join().ok().flatten();
        match outcome {
            Err(_) => t.fail(format!("peer maximum PDU length {}: sending 32 bytes through send_pdata panicked", max)),
            Ok(Err(e)) => { println!("SKIPPED unit=C26.writer_messages reason=could not associate with the hand-written acceptor: {}", e); t.cases -= 1; return; }
            Ok(Ok(r)) => {
                if max <= 6 { if r.is_ok() { t.fail(format!("peer maximum PDU length {} (no room for data): sending 32 bytes reported success; the acceptor received {:?}", max, received)); } }
                else if r.is_err() || received.as_deref() != Some(&payload[..]) { t.fail(format!("peer maximum PDU length {}: sending 32 bytes gave {:?}; the acceptor received {:?}", max, r, received)); }
            }
        }
    }
}
