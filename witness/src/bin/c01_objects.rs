//! Native stand-in at DATA-SET level for C01 and C04 on the compiled code (not a deductive result):
//! three in-memory objects (a flat one with every kind of value incl. odd lengths, empty values and private
//! attributes; nested sequences three levels deep incl. an empty sequence and an empty item; encapsulated
//! pixel data with an offset table and two fragments) are written with `write_dataset_with_ts` in Implicit
//! VR LE, Explicit VR LE, Explicit VR BE and Deflated Explicit VR LE, and
//!  * C04: the written stream (not the deflated one) is walked by an independent recursive reader of the
//!    PS3.5 layout: every defined value length is even and the value bytes follow, defined-length items and
//!    sequences end exactly where their length says, undefined-length ones are closed by the matching
//!    delimiter, tags ascend inside every data set, nothing is left over;
//!  * C01: the stream read back with `read_dataset_with_ts` in the same transfer syntax gives an object
//!    equal to the written one up to the documented normalisations (trailing padding, text of dates / numbers,
//!    dictionary VR in Implicit VR),
//!    and writing that object again gives the same bytes.
use dicom_core::value::{DataSetSequence, DicomDate, DicomTime, PixelFragmentSequence, Value, C};
use dicom_core::{dicom_value, DataElement, Length, PrimitiveValue, Tag, VR};
use dicom_object::InMemDicomObject;
use dicom_transfer_syntax_registry::entries;

struct Tally { cases: u64, bad: u64 }
impl Tally {
    fn fail(&mut self, what: String) {
        self.bad += 1;
        if self.bad <= 8 { println!("WITNESS unit=C01.objects {}", what); }
    }
}

fn flat() -> InMemDicomObject {
    InMemDicomObject::from_element_iter([
        DataElement::new(Tag(0x0008, 0x0005), VR::CS, PrimitiveValue::from("ISO_IR 100")),
        DataElement::new(Tag(0x0008, 0x0008), VR::CS, PrimitiveValue::Strs(C::from_vec(vec!["ORIGINAL".to_string(), "PRIMARY".to_string(), "AXIAL".to_string()]))),
        DataElement::new(Tag(0x0008, 0x0016), VR::UI, PrimitiveValue::from("1.2.840.10008.5.1.4.1.1.7")),
        DataElement::new(Tag(0x0008, 0x0018), VR::UI, PrimitiveValue::from("2.25.1234")),
        DataElement::new(Tag(0x0008, 0x0020), VR::DA, PrimitiveValue::Date(C::from_vec(vec![DicomDate::from_ymd(1999, 12, 31).unwrap()]))),
        DataElement::new(Tag(0x0008, 0x0030), VR::TM, PrimitiveValue::Time(C::from_vec(vec![DicomTime::from_hms_milli(10, 15, 30, 250).unwrap()]))),
        DataElement::new(Tag(0x0008, 0x0050), VR::SH, PrimitiveValue::Empty),
        DataElement::new(Tag(0x0008, 0x0060), VR::CS, PrimitiveValue::from("OT")),
        DataElement::new(Tag(0x0008, 0x1030), VR::LO, PrimitiveValue::from("Étude")),
        DataElement::new(Tag(0x0009, 0x0010), VR::LO, PrimitiveValue::from("VERIF PRIVATE")),
        DataElement::new(Tag(0x0009, 0x1001), VR::UN, dicom_value!(U8, [1, 2, 3, 4, 5, 6])),
        DataElement::new(Tag(0x0009, 0x1002), VR::OB, dicom_value!(U8, [9, 8, 7, 6])),
        DataElement::new(Tag(0x0010, 0x0010), VR::PN, PrimitiveValue::from("Doe^John")),
        DataElement::new(Tag(0x0010, 0x0020), VR::LO, PrimitiveValue::from("ID1")),
        DataElement::new(Tag(0x0010, 0x1030), VR::DS, PrimitiveValue::from("70.5")),
        DataElement::new(Tag(0x0018, 0x0013), VR::FL, dicom_value!(F32, [1.5, -0.25])),
        DataElement::new(Tag(0x0018, 0x9087), VR::FD, dicom_value!(F64, [1.0e-3])),
        DataElement::new(Tag(0x0018, 0x9219), VR::SS, dicom_value!(I16, [-5])),
        DataElement::new(Tag(0x0020, 0x0013), VR::IS, PrimitiveValue::from("7")),
        DataElement::new(Tag(0x0028, 0x0009), VR::AT, PrimitiveValue::Tags(C::from_vec(vec![Tag(0x0054, 0x0010), Tag(0x0018, 0x1063)]))),
        DataElement::new(Tag(0x0028, 0x0010), VR::US, dicom_value!(U16, [2])),
        DataElement::new(Tag(0x0028, 0x0011), VR::US, dicom_value!(U16, [3])),
        DataElement::new(Tag(0x0040, 0xA162), VR::SL, dicom_value!(I32, [-70000, 70000])),
        DataElement::new(Tag(0x7FE0, 0x0010), VR::OW, dicom_value!(U16, [1, 2, 3, 4, 5, 6])),
    ])
}

fn nested() -> InMemDicomObject {
    let leaf = |uid: &str| InMemDicomObject::from_element_iter([
        DataElement::new(Tag(0x0008, 0x1150), VR::UI, PrimitiveValue::from("1.2.840.10008.5.1.4.1.1.7")),
        DataElement::new(Tag(0x0008, 0x1155), VR::UI, PrimitiveValue::from(uid)),
    ]);
    let level2 = InMemDicomObject::from_element_iter([
        DataElement::new(Tag(0x0008, 0x0100), VR::SH, PrimitiveValue::from("T-1")),
        DataElement::new(Tag(0x0008, 0x1140), VR::SQ, Value::from(DataSetSequence::new(vec![leaf("1.2.3"), leaf("1.2.3.44")], Length::UNDEFINED))),
    ]);
    let level1 = InMemDicomObject::from_element_iter([
        DataElement::new(Tag(0x0008, 0x0104), VR::LO, PrimitiveValue::from("meaning")),
        DataElement::new(Tag(0x0040, 0xA730), VR::SQ, Value::from(DataSetSequence::new(vec![level2, InMemDicomObject::new_empty()], Length::UNDEFINED))),
    ]);
    InMemDicomObject::from_element_iter([
        DataElement::new(Tag(0x0008, 0x0018), VR::UI, PrimitiveValue::from("2.25.99")),
        DataElement::new(Tag(0x0008, 0x1115), VR::SQ, Value::from(DataSetSequence::new(vec![level1], Length::UNDEFINED))),
        DataElement::new(Tag(0x0008, 0x1120), VR::SQ, Value::from(DataSetSequence::<InMemDicomObject>::new(vec![], Length::UNDEFINED))),
        DataElement::new(Tag(0x0010, 0x0010), VR::PN, PrimitiveValue::from("Nested^Case")),
    ])
}

fn encapsulated() -> InMemDicomObject {
    InMemDicomObject::from_element_iter([
        DataElement::new(Tag(0x0008, 0x0018), VR::UI, PrimitiveValue::from("2.25.77")),
        DataElement::new(Tag(0x0028, 0x0008), VR::IS, PrimitiveValue::from("2")),
        DataElement::new(Tag(0x7FE0, 0x0010), VR::OB, Value::from(PixelFragmentSequence::new(vec![0u32, 12], vec![vec![1u8, 2, 3, 4], vec![5u8, 6]]))),
    ])
}

/// encapsulated pixel data as the LAST attribute of a sequence item (icon image), followed by further items and attributes
fn icon() -> InMemDicomObject {
    let icon_item = |b: u8| InMemDicomObject::from_element_iter([
        DataElement::new(Tag(0x0028, 0x0010), VR::US, dicom_value!(U16, [1])),
        DataElement::new(Tag(0x7FE0, 0x0010), VR::OB, Value::from(PixelFragmentSequence::new(vec![0u32], vec![vec![b, 2, 3, 4]]))),
    ]);
    InMemDicomObject::from_element_iter([
        DataElement::new(Tag(0x0008, 0x0018), VR::UI, PrimitiveValue::from("2.25.55")),
        DataElement::new(Tag(0x0088, 0x0200), VR::SQ, Value::from(DataSetSequence::new(vec![icon_item(1), icon_item(9), InMemDicomObject::new_empty()], Length::UNDEFINED))),
        DataElement::new(Tag(0x7FE0, 0x0010), VR::OB, Value::from(PixelFragmentSequence::new(vec![0u32], vec![vec![7u8, 7]]))),
        DataElement::new(Tag(0xFFFA, 0xFFFA), VR::SQ, Value::from(DataSetSequence::new(vec![InMemDicomObject::new_empty(), InMemDicomObject::new_empty()], Length::UNDEFINED))),
    ])
}

/// an empty fragment among the pixel data fragments
fn empty_fragment() -> InMemDicomObject {
    InMemDicomObject::from_element_iter([
        DataElement::new(Tag(0x0008, 0x0018), VR::UI, PrimitiveValue::from("2.25.56")),
        DataElement::new(Tag(0x7FE0, 0x0010), VR::OB, Value::from(PixelFragmentSequence::new(vec![], vec![vec![], vec![5u8, 6], vec![]]))),
    ])
}

/// odd-length fragments, an empty offset table, a multi-frame offset table
fn odd_fragments() -> InMemDicomObject {
    InMemDicomObject::from_element_iter([
        DataElement::new(Tag(0x0008, 0x0018), VR::UI, PrimitiveValue::from("2.25.57")),
        DataElement::new(Tag(0x0028, 0x0008), VR::IS, PrimitiveValue::from("3")),
        DataElement::new(Tag(0x7FE0, 0x0010), VR::OB, Value::from(PixelFragmentSequence::new(vec![0u32, 12, 22], vec![vec![1u8, 2, 3, 4], vec![5u8, 6], vec![7u8, 8, 9, 10, 11, 12]]))),
    ])
}
fn empty_offset_table() -> InMemDicomObject {
    InMemDicomObject::from_element_iter([
        DataElement::new(Tag(0x0008, 0x0018), VR::UI, PrimitiveValue::from("2.25.58")),
        DataElement::new(Tag(0x7FE0, 0x0010), VR::OB, Value::from(PixelFragmentSequence::new(vec![], vec![vec![1u8, 2, 3, 4, 5, 6]]))),
    ])
}

/// DICOM text of a primitive value, without trailing padding (the documented normalisation)
fn text_of(v: &PrimitiveValue) -> String {
    let t = match v {
        PrimitiveValue::Date(l) => l.iter().map(|x| x.to_encoded()).collect::<Vec<_>>().join("\\"),
        PrimitiveValue::Time(l) => l.iter().map(|x| x.to_encoded()).collect::<Vec<_>>().join("\\"),
        PrimitiveValue::DateTime(l) => l.iter().map(|x| x.to_encoded()).collect::<Vec<_>>().join("\\"),
        PrimitiveValue::Strs(l) => l.iter().map(|x| x.trim_end_matches(|c| c == ' ' || c == '\0').to_string()).collect::<Vec<_>>().join("\\"),
        other => other.to_str().to_string(),
    };
    t.trim_end_matches(|c| c == ' ' || c == '\0').to_string()
}

/// equality up to the documented normalisations: same tags in the same order, same VR, and values equal —
/// binary values item by item, textual values / dates / times by their text without trailing padding,
/// sequences item by item (recursively), pixel fragments byte by byte
fn differs(a: &InMemDicomObject, b: &InMemDicomObject, implicit: bool) -> Option<String> {
    let (ea, eb): (Vec<_>, Vec<_>) = (a.iter().collect(), b.iter().collect());
    if ea.len() != eb.len() { return Some(format!("{} elements written, {} read back", ea.len(), eb.len())); }
    for (x, y) in ea.iter().zip(eb.iter()) {
        if x.header().tag != y.header().tag { return Some(format!("element {} read back as {}", x.header().tag, y.header().tag)); }
        // in Implicit VR the VR comes from the dictionary: a private attribute comes back as UN (documented normalisation)
        if x.header().vr != y.header().vr && !(implicit && x.header().tag.0 % 2 == 1 && y.header().vr == VR::UN) { return Some(format!("{}: VR {} read back as {}", x.header().tag, x.header().vr.to_string(), y.header().vr.to_string())); }
        match (x.value(), y.value()) {
            (Value::Primitive(p), Value::Primitive(q)) => {
                use PrimitiveValue::*;
                let same = match (p, q) {
                    (U8(_), U8(_)) | (U16(_), U16(_)) | (I16(_), I16(_)) | (U32(_), U32(_)) | (I32(_), I32(_)) | (U64(_), U64(_)) | (I64(_), I64(_)) | (Tags(_), Tags(_)) => p == q,
                    (F32(m), F32(n)) => m.len() == n.len() && m.iter().zip(n.iter()).all(|(u, v)| u.to_bits() == v.to_bits()),
                    (F64(m), F64(n)) => m.len() == n.len() && m.iter().zip(n.iter()).all(|(u, v)| u.to_bits() == v.to_bits()),
                    _ => text_of(p) == text_of(q),
                };
                if !same { return Some(format!("{}: written {:?}, read back {:?}", x.header().tag, p, q)); }
            }
            (Value::Sequence(p), Value::Sequence(q)) => {
                if p.items().len() != q.items().len() { return Some(format!("{}: {} items written, {} read back", x.header().tag, p.items().len(), q.items().len())); }
                for (i, (u, v)) in p.items().iter().zip(q.items().iter()).enumerate() {
                    if let Some(d) = differs(u, v, implicit) { return Some(format!("{} item {}: {}", x.header().tag, i, d)); }
                }
            }
            (Value::PixelSequence(p), Value::PixelSequence(q)) => {
                if p.offset_table() != q.offset_table() || p.fragments() != q.fragments() { return Some(format!("{}: pixel fragments / offset table differ: {:?} vs {:?}", x.header().tag, p, q)); }
            }
            (p, q) => return Some(format!("{}: value kind changed: {:?} vs {:?}", x.header().tag, p, q)),
        }
    }
    None
}

/// independent structural reader. Returns Err(description) on the first violation.
struct Walker<'a> { b: &'a [u8], be: bool, explicit: bool }
impl Walker<'_> {
    fn u16(&self, i: usize) -> Result<u16, String> { let s = self.b.get(i..i + 2).ok_or("stream ends inside a 16-bit field")?; Ok(if self.be { u16::from_be_bytes([s[0], s[1]]) } else { u16::from_le_bytes([s[0], s[1]]) }) }
    fn u32(&self, i: usize) -> Result<u32, String> { let s = self.b.get(i..i + 4).ok_or("stream ends inside a 32-bit field")?; Ok(if self.be { u32::from_be_bytes([s[0], s[1], s[2], s[3]]) } else { u32::from_le_bytes([s[0], s[1], s[2], s[3]]) }) }
    fn tag(&self, i: usize) -> Result<(u16, u16), String> { Ok((self.u16(i)?, self.u16(i + 2)?)) }
    /// walks a data set in [i, end) (end = None: until the item delimiter); returns the index after it
    fn dataset(&self, mut i: usize, end: Option<usize>, depth: usize) -> Result<usize, String> {
        let mut last: Option<(u16, u16)> = None;
        loop {
            if let Some(e) = end { if i == e { return Ok(i); } if i > e { return Err(format!("content runs {} bytes past the end declared by its length", i - e)); } }
            else if depth == 0 && i == self.b.len() { return Ok(i); }
            let t = self.tag(i)?;
            if t == (0xFFFE, 0xE00D) {
                if end.is_some() || depth == 0 { return Err(format!("item delimiter at offset {} inside a defined-length item / top level", i)); }
                if self.u32(i + 4)? != 0 { return Err("item delimiter with non-zero length".into()); }
                return Ok(i + 8);
            }
            if let Some(l) = last { if t <= l { return Err(format!("tag ({:04X},{:04X}) at offset {} does not ascend", t.0, t.1, i)); } }
            last = Some(t);
            let (vr, hlen, len) = if self.explicit {
                let vr = [*self.b.get(i + 4).ok_or("cut")?, *self.b.get(i + 5).ok_or("cut")?];
                if !vr.iter().all(|c| c.is_ascii_uppercase()) { return Err(format!("VR bytes {:02X?} at offset {}", vr, i + 4)); }
                let short = matches!(&vr, b"AE" | b"AS" | b"AT" | b"CS" | b"DA" | b"DS" | b"DT" | b"FL" | b"FD" | b"IS" | b"LO" | b"LT" | b"PN" | b"SH" | b"SL" | b"SS" | b"ST" | b"TM" | b"UI" | b"UL" | b"US");
                if short { (vr, 8, self.u16(i + 6)? as u32) } else { if self.u16(i + 6)? != 0 { return Err(format!("reserved bytes not zero at offset {}", i + 6)); } (vr, 12, self.u32(i + 8)?) }
            } else { ([0, 0], 8, self.u32(i + 4)?) };
            let is_sq = if self.explicit { &vr == b"SQ" } else { len == 0xFFFF_FFFF || matches!(t, (0x0008, 0x1115) | (0x0008, 0x1120) | (0x0008, 0x1140) | (0x0040, 0xA730)) };
            i += hlen;
            if t == (0x7FE0, 0x0010) && len == 0xFFFF_FFFF {
                // encapsulated pixel data: items until the sequence delimiter
                loop {
                    let it = self.tag(i)?;
                    let l = self.u32(i + 4)?;
                    if it == (0xFFFE, 0xE0DD) { if l != 0 { return Err("sequence delimiter with non-zero length".into()); } i += 8; break; }
                    if it != (0xFFFE, 0xE000) { return Err(format!("unexpected tag ({:04X},{:04X}) among pixel data fragments", it.0, it.1)); }
                    if l % 2 != 0 { return Err(format!("fragment of odd length {}", l)); }
                    if i + 8 + l as usize > self.b.len() { return Err("fragment runs past the end of the stream".into()); }
                    i += 8 + l as usize;
                }
            } else if is_sq {
                let seq_end = if len == 0xFFFF_FFFF { None } else { Some(i + len as usize) };
                loop {
                    if let Some(e) = seq_end { if i == e { break; } if i > e { return Err("items run past the end of a defined-length sequence".into()); } }
                    let it = self.tag(i)?;
                    let l = self.u32(i + 4)?;
                    if it == (0xFFFE, 0xE0DD) {
                        if seq_end.is_some() { return Err("sequence delimiter inside a defined-length sequence".into()); }
                        if l != 0 { return Err("sequence delimiter with non-zero length".into()); }
                        i += 8; break;
                    }
                    if it != (0xFFFE, 0xE000) { return Err(format!("unexpected tag ({:04X},{:04X}) where an item was expected (offset {})", it.0, it.1, i)); }
                    i = if l == 0xFFFF_FFFF { self.dataset(i + 8, None, depth + 1)? } else { self.dataset(i + 8, Some(i + 8 + l as usize), depth + 1)? };
                }
            } else {
                if len == 0xFFFF_FFFF { return Err(format!("undefined length on a non-sequence element ({:04X},{:04X})", t.0, t.1)); }
                if len % 2 != 0 { return Err(format!("element ({:04X},{:04X}) declares the odd length {}", t.0, t.1, len)); }
                if i + len as usize > self.b.len() { return Err(format!("element ({:04X},{:04X}) declares {} value bytes, {} follow", t.0, t.1, len, self.b.len() - i)); }
                i += len as usize;
            }
        }
    }
}

/// hand-encoded Explicit VR LE streams with DEFINED-length sequences and items (mixed with undefined ones):
/// read, then written (a) keeping the recorded lengths (NoChange): the bytes must be reproduced exactly;
/// (b) with the default strategy: structurally valid, and reading it back gives an equal object
fn defined_lengths(t: &mut Tally) {
    use dicom_parser::dataset::write::{DataSetWriterOptions, ExplicitLengthSqItemStrategy};
    fn el(tag: (u16, u16), vr: &[u8; 2], body: &[u8]) -> Vec<u8> {
        let mut o = Vec::new();
        o.extend_from_slice(&tag.0.to_le_bytes()); o.extend_from_slice(&tag.1.to_le_bytes()); o.extend_from_slice(vr);
        if matches!(vr, b"SQ" | b"OB" | b"UN" | b"UT" | b"OW") { o.extend_from_slice(&[0, 0]); o.extend_from_slice(&(body.len() as u32).to_le_bytes()); } else { o.extend_from_slice(&(body.len() as u16).to_le_bytes()); }
        o.extend_from_slice(body);
        o
    }
    fn sq_undefined(tag: (u16, u16), items: &[Vec<u8>]) -> Vec<u8> {
        let mut o = Vec::new();
        o.extend_from_slice(&tag.0.to_le_bytes()); o.extend_from_slice(&tag.1.to_le_bytes()); o.extend_from_slice(b"SQ"); o.extend_from_slice(&[0, 0, 0xFF, 0xFF, 0xFF, 0xFF]);
        for i in items { o.extend_from_slice(i); }
        o.extend_from_slice(&[0xFE, 0xFF, 0xDD, 0xE0, 0, 0, 0, 0]);
        o
    }
    fn item_defined(content: &[u8]) -> Vec<u8> { let mut o = vec![0xFE, 0xFF, 0x00, 0xE0]; o.extend_from_slice(&(content.len() as u32).to_le_bytes()); o.extend_from_slice(content); o }
    fn item_undefined(content: &[u8]) -> Vec<u8> { let mut o = vec![0xFE, 0xFF, 0x00, 0xE0, 0xFF, 0xFF, 0xFF, 0xFF]; o.extend_from_slice(content); o.extend_from_slice(&[0xFE, 0xFF, 0x0D, 0xE0, 0, 0, 0, 0]); o }
    let leaf = el((0x0008, 0x1155), b"UI", b"1.2.3.4\0");
    let leaf2 = el((0x0008, 0x0100), b"SH", b"CODE");
    let streams: Vec<(&str, Vec<u8>)> = vec![
        ("defined-length sequence with one defined-length item", [el((0x0008, 0x0018), b"UI", b"2.25.1\0\0"[..6].as_ref()), el((0x0008, 0x1115), b"SQ", &item_defined(&leaf)), el((0x0010, 0x0020), b"LO", b"ID")].concat()),
        ("defined-length sequence with two items, the second empty", [el((0x0008, 0x1115), b"SQ", &[item_defined(&leaf), item_defined(&[])].concat()), el((0x0010, 0x0020), b"LO", b"ID")].concat()),
        ("empty defined-length sequence", [el((0x0008, 0x1115), b"SQ", &[]), el((0x0010, 0x0020), b"LO", b"ID")].concat()),
        ("defined-length item holding an undefined-length sequence", [el((0x0008, 0x1115), b"SQ", &item_defined(&[leaf2.clone(), sq_undefined((0x0008, 0x1140), &[item_undefined(&leaf)])].concat())), el((0x0010, 0x0020), b"LO", b"ID")].concat()),
        ("undefined-length sequence holding a defined-length item with a defined-length sequence", [sq_undefined((0x0008, 0x1115), &[item_defined(&[leaf2.clone(), el((0x0008, 0x1140), b"SQ", &item_defined(&leaf))].concat())]), el((0x0010, 0x0020), b"LO", b"ID")].concat()),
        ("encapsulated pixel data followed by a defined-length sequence whose defined-length item holds a defined-length sequence", [
            vec![0xE0, 0x7F, 0x10, 0x00, b'O', b'B', 0, 0, 0xFF, 0xFF, 0xFF, 0xFF, 0xFE, 0xFF, 0x00, 0xE0, 0, 0, 0, 0, 0xFE, 0xFF, 0x00, 0xE0, 2, 0, 0, 0, 7, 8, 0xFE, 0xFF, 0xDD, 0xE0, 0, 0, 0, 0],
            el((0xFFFA, 0xFFFA), b"SQ", &item_defined(&[leaf2.clone(), el((0x0008, 0x1140), b"SQ", &item_defined(&leaf))].concat()))].concat()),
        ("encapsulated pixel data followed by an undefined-length sequence whose defined-length item holds a defined-length sequence", [
            vec![0xE0, 0x7F, 0x10, 0x00, b'O', b'B', 0, 0, 0xFF, 0xFF, 0xFF, 0xFF, 0xFE, 0xFF, 0x00, 0xE0, 0, 0, 0, 0, 0xFE, 0xFF, 0x00, 0xE0, 2, 0, 0, 0, 7, 8, 0xFE, 0xFF, 0xDD, 0xE0, 0, 0, 0, 0],
            sq_undefined((0xFFFA, 0xFFFA), &[item_defined(&[leaf2.clone(), el((0x0008, 0x1140), b"SQ", &item_defined(&leaf))].concat())])].concat()),
        ("a defined-length item that follows an item ending in encapsulated pixel data and holds a defined-length sequence", vec![
            0x88, 0x00, 0x00, 0x02, b'S', b'Q', 0, 0, 86, 0, 0, 0,
              0xFE, 0xFF, 0x00, 0xE0, 38, 0, 0, 0,
                0xE0, 0x7F, 0x10, 0x00, b'O', b'B', 0, 0, 0xFF, 0xFF, 0xFF, 0xFF,
                  0xFE, 0xFF, 0x00, 0xE0, 0, 0, 0, 0,
                  0xFE, 0xFF, 0x00, 0xE0, 2, 0, 0, 0, 0x01, 0x02,
                  0xFE, 0xFF, 0xDD, 0xE0, 0, 0, 0, 0,
              0xFE, 0xFF, 0x00, 0xE0, 32, 0, 0, 0,
                0x08, 0x00, 0x40, 0x11, b'S', b'Q', 0, 0, 20, 0, 0, 0,
                  0xFE, 0xFF, 0x00, 0xE0, 12, 0, 0, 0,
                    0x08, 0x00, 0x50, 0x11, b'U', b'I', 4, 0, b'1', b'.', b'2', 0]),
        ("two nested defined-length containers ending at the same offset, last in the stream", el((0x0008, 0x1115), b"SQ", &item_defined(&el((0x0008, 0x1140), b"SQ", &item_defined(&leaf))))),
    ];
    let ts = entries::EXPLICIT_VR_LITTLE_ENDIAN.erased();
    for (name, bytes) in &streams {
        t.cases += 1;
        let wk = Walker { b: bytes, be: false, explicit: true };
        if !matches!(wk.dataset(0, None, 0), Ok(n) if n == bytes.len()) { t.fail(format!("{}: the hand-encoded stream itself is not valid (oracle bug)", name)); continue; }
        let obj = match InMemDicomObject::read_dataset_with_ts(&bytes[..], &ts) { Ok(o) => o, Err(e) => { t.fail(format!("{}: does not read: {}", name, e)); continue; } };
        let mut kept = Vec::new();
        let opts = DataSetWriterOptions::default().explicit_length_sq_item_strategy(ExplicitLengthSqItemStrategy::NoChange);
        match obj.write_dataset_with_ts_options(&mut kept, &ts, opts) {
            Ok(()) => if kept != *bytes { t.fail(format!("{}: written with the recorded lengths kept, {} bytes instead of the original {}: {:02X?} vs {:02X?}", name, kept.len(), bytes.len(), kept, bytes)); },
            Err(e) => t.fail(format!("{}: writing with the recorded lengths kept failed: {}", name, e)),
        }
        let mut undef = Vec::new();
        match obj.write_dataset_with_ts(&mut undef, &ts) {
            Ok(()) => {
                let wk = Walker { b: &undef, be: false, explicit: true };
                match wk.dataset(0, None, 0) {
                    Ok(n) if n == undef.len() => {}
                    other => t.fail(format!("{}: written with the default strategy, the stream is not structurally valid: {:?} ({:02X?})", name, other, undef)),
                }
                match InMemDicomObject::read_dataset_with_ts(&undef[..], &ts) {
                    Ok(back) => if let Some(d) = differs(&obj, &back, false) { t.fail(format!("{}: default-strategy stream reads back differently: {}", name, d)); },
                    Err(e) => t.fail(format!("{}: default-strategy stream does not read back: {}", name, e)),
                }
            }
            Err(e) => t.fail(format!("{}: writing with the default strategy failed: {}", name, e)),
        }
    }
}

/// complete files: 128-byte preamble, "DICM", the meta group ALWAYS in Explicit VR LE whose group length ends it exactly,
/// then the data set in the transfer syntax the meta group names; read back gives an equal object
fn files(t: &mut Tally, objects: &[(&str, InMemDicomObject)]) {
    use dicom_object::FileMetaTableBuilder;
    for (oname, obj) in objects {
        for (uid, tname, be, explicit) in [("1.2.840.10008.1.2", "Implicit VR LE", false, false), ("1.2.840.10008.1.2.1", "Explicit VR LE", false, true), ("1.2.840.10008.1.2.2", "Explicit VR BE", true, true)] {
          // file meta group: required attributes only / every optional attribute with an odd-length value / with an even-length value
          for flavour in 0..3 {
            t.cases += 1;
            let label = format!("file: {} in {}, file meta group {}", oname, tname, ["with the required attributes", "with every optional attribute, odd lengths", "with every optional attribute, even lengths"][flavour]);
            let mut o = obj.clone();
            o.put(DataElement::new(Tag(0x0008, 0x0016), VR::UI, PrimitiveValue::from("1.2.840.10008.5.1.4.1.1.7")));
            let mut builder = FileMetaTableBuilder::new().transfer_syntax(uid);
            if flavour == 1 {
                builder = builder.implementation_version_name("ABC").source_application_entity_title("SRC").sending_application_entity_title("S").receiving_application_entity_title("RCV01")
                    .private_information_creator_uid("1.2.3").private_information(vec![1, 0x80, 0xFF]);
            } else if flavour == 2 {
                builder = builder.implementation_version_name("ABCD").source_application_entity_title("SR").sending_application_entity_title("SEND").receiving_application_entity_title("RCV012")
                    .private_information_creator_uid("1.2.34").private_information(vec![1, 0x80, 0xFF, 0]);
            }
            let file = match o.with_meta(builder) { Ok(f) => f, Err(e) => { t.fail(format!("{}: no meta table: {}", label, e)); continue; } };
            let mut bytes = Vec::new();
            if let Err(e) = file.write_all(&mut bytes) { t.fail(format!("{}: writing failed: {}", label, e)); continue; }
            if bytes.len() < 144 || bytes[..128].iter().any(|b| *b != 0) || &bytes[128..132] != b"DICM" { t.fail(format!("{}: no zero preamble + DICM at the start", label)); continue; }
            // group length element (0002,0000) UL 4
            if bytes[132..140] != [0x02, 0x00, 0x00, 0x00, b'U', b'L', 0x04, 0x00] { t.fail(format!("{}: the file meta group does not start with (0002,0000) UL 4 in Explicit VR LE: {:02X?}", label, &bytes[132..144])); continue; }
            let glen = u32::from_le_bytes([bytes[140], bytes[141], bytes[142], bytes[143]]) as usize;
            let meta_end = 144 + glen;
            if meta_end > bytes.len() { t.fail(format!("{}: group length {} runs past the end of the file", label, glen)); continue; }
            let wk = Walker { b: &bytes[144..meta_end], be: false, explicit: true };
            match wk.dataset(0, None, 0) { Ok(n) if n == glen => {} other => { t.fail(format!("{}: the meta group (Explicit VR LE, {} bytes by its group length) is not structurally valid: {:?}", label, glen, other)); continue; } }
            // every element of the meta group is in group 0002, and the data set starts right after it
            let mut i = 144; let mut in_group = true;
            while i < meta_end { if bytes[i] != 0x02 || bytes[i + 1] != 0x00 { in_group = false; } let short = matches!(&bytes[i + 4..i + 6], b"UI" | b"SH" | b"AE" | b"UL"); let l = if short { u16::from_le_bytes([bytes[i + 6], bytes[i + 7]]) as usize + 8 } else { u32::from_le_bytes([bytes[i + 8], bytes[i + 9], bytes[i + 10], bytes[i + 11]]) as usize + 12 }; i += l; }
            if !in_group || i != meta_end { t.fail(format!("{}: the group length does not end the meta group at an element boundary inside group 0002", label)); continue; }
            let ds = &bytes[meta_end..];
            let wk = Walker { b: ds, be, explicit };
            match wk.dataset(0, None, 0) { Ok(n) if n == ds.len() => {} other => { t.fail(format!("{}: the data set part is not structurally valid in {}: {:?}", label, tname, other)); continue; } }
            match dicom_object::from_reader(&bytes[..]) {
                Ok(back) => { if let Some(d) = differs(&file, &back, !explicit) { t.fail(format!("{}: read back differs: {}", label, d)); } else if back.meta() != file.meta() { t.fail(format!("{}: meta table read back differs", label)); } }
                Err(e) => t.fail(format!("{}: the file does not read back: {}", label, e)),
            }
          }
        }
    }
}

fn main() {
    let mut t = Tally { cases: 0, bad: 0 };
    let objects = [("flat object", flat()), ("nested sequences", nested()), ("encapsulated pixel data", encapsulated()),
                   ("encapsulated pixel data inside sequence items", icon()), ("pixel data with empty fragments", empty_fragment()),
                   ("multi-frame offset table", odd_fragments()), ("empty offset table", empty_offset_table())];
    let syntaxes = [
        (entries::IMPLICIT_VR_LITTLE_ENDIAN.erased(), "Implicit VR LE", Some((false, false))),
        (entries::EXPLICIT_VR_LITTLE_ENDIAN.erased(), "Explicit VR LE", Some((false, true))),
        (entries::EXPLICIT_VR_BIG_ENDIAN.erased(), "Explicit VR BE", Some((true, true))),
        (entries::DEFLATED_EXPLICIT_VR_LITTLE_ENDIAN.erased(), "Deflated Explicit VR LE", None),
    ];
    for (oname, obj) in &objects {
        for (ts, tname, layout) in &syntaxes {
            t.cases += 1;
            let label = format!("{} in {}", oname, tname);
            let mut bytes = Vec::new();
            let w = std::panic::catch_unwind(std::panic::AssertUnwindSafe(|| obj.write_dataset_with_ts(&mut bytes, ts).map_err(|e| e.to_string())));
            match w { Ok(Ok(())) => {} Ok(Err(e)) => { t.fail(format!("{}: writing failed: {}", label, e)); continue; } Err(_) => { t.fail(format!("{}: writing panicked", label)); continue; } }
            if let Some((be, explicit)) = layout {
                let wk = Walker { b: &bytes, be: *be, explicit: *explicit };
                match wk.dataset(0, None, 0) {
                    Ok(n) if n == bytes.len() => {}
                    Ok(n) => t.fail(format!("{}: the independent reader stops at offset {} of {}", label, n, bytes.len())),
                    Err(e) => t.fail(format!("{}: written stream is not structurally valid: {}", label, e)),
                }
            }
            let back = match std::panic::catch_unwind(std::panic::AssertUnwindSafe(|| InMemDicomObject::read_dataset_with_ts(&bytes[..], ts).map_err(|e| e.to_string()))) {
                Ok(Ok(o)) => o, Ok(Err(e)) => { t.fail(format!("{}: the written stream does not read back: {}", label, e)); continue; } Err(_) => { t.fail(format!("{}: reading back panicked", label)); continue; }
            };
            if let Some(diff) = differs(obj, &back, *tname == "Implicit VR LE") {
                t.fail(format!("{}: read back object differs: {}", label, diff));
                continue;
            }
            let mut again = Vec::new();
            if back.write_dataset_with_ts(&mut again, ts).is_err() || (layout.is_some() && again != bytes) {
                t.fail(format!("{}: writing the object read back gives different bytes ({} vs {})", label, again.len(), bytes.len()));
            }
            // the variants of the writing call that take writer options / a character set: the same transfer syntax, so the stream must
            // read back with it to an equal object (for the deflated syntax: really deflated, not plain bytes)
            for variant in 0..2 {
                t.cases += 1;
                let mut out = Vec::new();
                let w = if variant == 0 { obj.write_dataset_with_ts_options(&mut out, ts, dicom_parser::dataset::write::DataSetWriterOptions::default()).map_err(|e| e.to_string()) }
                        else { obj.write_dataset_with_ts_cs_options(&mut out, ts, dicom_encoding::text::SpecificCharacterSet::default(), dicom_parser::dataset::write::DataSetWriterOptions::default()).map_err(|e| e.to_string()) };
                let vname = ["write_dataset_with_ts_options", "write_dataset_with_ts_cs_options"][variant];
                match w {
                    Err(e) => t.fail(format!("{}: {} failed: {}", label, vname, e)),
                    Ok(()) => match InMemDicomObject::read_dataset_with_ts(&out[..], ts) {
                        Ok(b2) => if let Some(diff) = differs(obj, &b2, *tname == "Implicit VR LE") { t.fail(format!("{}: written with {}, the object read back differs: {}", label, vname, diff)); },
                        Err(e) => t.fail(format!("{}: written with {} ({} bytes: {:02X?}...), the stream does not read back with the same transfer syntax: {}", label, vname, out.len(), &out[..out.len().min(12)], e)),
                    },
                }
            }
        }
    }
    defined_lengths(&mut t);
    files(&mut t, &objects);
    println!("EXHAUSTIVE unit=C01.objects cases={} mismatches={}", t.cases, t.bad);
}
