//! C11 (continued) — every `extend_*` function on every numeric target variant, `truncate` on every
//! numeric / tag variant, single and multi float conversions from every binary numeric variant.
use crate::common::no_bt;
use dicom_core::header::Tag;
use dicom_core::smallvec::smallvec;
use dicom_core::value::PrimitiveValue;

/// `extend_X([x])` on a one-item value of numeric variant `$var` (item type `$elem`):
/// Ok, the value keeps its type, items afterwards = old item, then `x` cast to the value's type
/// (the documented conversion). `$eq` compares two items (bitwise for floats: NaN payloads).
macro_rules! extend_contract {
    ($name:ident, $f:ident, $num:ty, $var:ident, $elem:ty, $bits:expr) => {
        #[kani::proof]
        #[kani::unwind(6)]
        #[kani::stub(std::backtrace::Backtrace::force_capture, no_bt)]
        pub fn $name() {
            let p: $elem = kani::any();
            let x: $num = kani::any();
            let mut v = PrimitiveValue::$var(smallvec![p]);
            match v.$f([x]) {
                Ok(()) => {}
                Err(e) => {
                    core::mem::forget(e);
                    assert!(false, "C11.extend: numbers can be appended to a numeric value");
                }
            }
            match &v {
                PrimitiveValue::$var(l) => {
                    assert!(l.len() == 2, "C11.extend: exactly the given numbers are appended");
                    let bits = $bits;
                    assert!(bits(l[0]) == bits(p), "C11.extend: the old items are untouched");
                    assert!(bits(l[1]) == bits(x as $elem), "C11.extend: the new number is the given one, cast to the value's type");
                }
                _ => assert!(false, "C11.extend: the value keeps its type"),
            }
            core::mem::forget(v);
        }
    };
}

/// `extend_X([x, y])` on an Empty value: becomes a value of X's own variant holding exactly x, y
macro_rules! extend_empty_contract {
    ($name:ident, $f:ident, $num:ty, $var:ident, $bits:expr) => {
        #[kani::proof]
        #[kani::unwind(6)]
        #[kani::stub(std::backtrace::Backtrace::force_capture, no_bt)]
        pub fn $name() {
            let x: $num = kani::any();
            let y: $num = kani::any();
            let mut v = PrimitiveValue::Empty;
            match v.$f([x, y]) {
                Ok(()) => {}
                Err(e) => {
                    core::mem::forget(e);
                    assert!(false, "C11.extend: numbers can be appended to an empty value");
                }
            }
            match &v {
                PrimitiveValue::$var(l) => {
                    let bits = $bits;
                    assert!(l.len() == 2 && bits(l[0]) == bits(x) && bits(l[1]) == bits(y), "C11.extend: an empty value becomes exactly the given numbers, in order");
                }
                _ => assert!(false, "C11.extend: an empty value takes the type of the numbers"),
            }
            core::mem::forget(v);
        }
    };
}

/// `extend_X` on a Tags value: error, value unchanged
macro_rules! extend_incompatible_contract {
    ($name:ident, $f:ident, $num:ty) => {
        #[kani::proof]
        #[kani::unwind(6)]
        #[kani::stub(std::backtrace::Backtrace::force_capture, no_bt)]
        pub fn $name() {
            let g: u16 = kani::any();
            let e: u16 = kani::any();
            let x: $num = kani::any();
            let mut v = PrimitiveValue::Tags(smallvec![Tag(g, e)]);
            match v.$f([x]) {
                Ok(()) => assert!(false, "C11.extend: numbers cannot be appended to a tag value"),
                Err(er) => core::mem::forget(er),
            }
            match &v {
                PrimitiveValue::Tags(l) => assert!(l.len() == 1 && l[0].0 == g && l[0].1 == e, "C11.extend: a failed extension leaves the value unchanged"),
                _ => assert!(false, "C11.extend: a failed extension leaves the value unchanged"),
            }
            core::mem::forget(v);
        }
    };
}

macro_rules! id { () => { |v| v } }
fn canon(v: f64) -> u64 { if v.is_nan() { 0x7ff8_0000_0000_0000u64 } else { v.to_bits() } }
macro_rules! f32b { () => { |v: f32| if v.is_nan() { 0x7fc0_0000u32 } else { v.to_bits() } } }
macro_rules! f64b { () => { |v: f64| if v.is_nan() { 0x7ff8_0000_0000_0000u64 } else { v.to_bits() } } }

macro_rules! extend_family {
    ($f:ident, $num:ty, $own:ident, $ownbits:expr,
     $n_u8:ident, $n_u16:ident, $n_i16:ident, $n_u32:ident, $n_i32:ident, $n_u64:ident, $n_i64:ident, $n_f32:ident, $n_f64:ident,
     $n_empty:ident, $n_tags:ident) => {
        extend_contract!($n_u8, $f, $num, U8, u8, id!());
        extend_contract!($n_u16, $f, $num, U16, u16, id!());
        extend_contract!($n_i16, $f, $num, I16, i16, id!());
        extend_contract!($n_u32, $f, $num, U32, u32, id!());
        extend_contract!($n_i32, $f, $num, I32, i32, id!());
        extend_contract!($n_u64, $f, $num, U64, u64, id!());
        extend_contract!($n_i64, $f, $num, I64, i64, id!());
        extend_contract!($n_f32, $f, $num, F32, f32, f32b!());
        extend_contract!($n_f64, $f, $num, F64, f64, f64b!());
        extend_empty_contract!($n_empty, $f, $num, $own, $ownbits);
        extend_incompatible_contract!($n_tags, $f, $num);
    };
}

extend_family!(extend_u16, u16, U16, id!(),
    c11_ext_u16_on_u8, c11_ext_u16_on_u16, c11_ext_u16_on_i16, c11_ext_u16_on_u32, c11_ext_u16_on_i32, c11_ext_u16_on_u64, c11_ext_u16_on_i64, c11_ext_u16_on_f32, c11_ext_u16_on_f64,
    c11_ext_u16_on_empty, c11_ext_u16_on_tags);
extend_family!(extend_i16, i16, I16, id!(),
    c11_ext_i16_on_u8, c11_ext_i16_on_u16, c11_ext_i16_on_i16, c11_ext_i16_on_u32, c11_ext_i16_on_i32, c11_ext_i16_on_u64, c11_ext_i16_on_i64, c11_ext_i16_on_f32, c11_ext_i16_on_f64,
    c11_ext_i16_on_empty, c11_ext_i16_on_tags);
extend_family!(extend_i32, i32, I32, id!(),
    c11_ext_i32_on_u8, c11_ext_i32_on_u16, c11_ext_i32_on_i16, c11_ext_i32_on_u32, c11_ext_i32_on_i32, c11_ext_i32_on_u64, c11_ext_i32_on_i64, c11_ext_i32_on_f32, c11_ext_i32_on_f64,
    c11_ext_i32_on_empty, c11_ext_i32_on_tags);
extend_family!(extend_u32, u32, U32, id!(),
    c11_ext_u32_on_u8, c11_ext_u32_on_u16, c11_ext_u32_on_i16, c11_ext_u32_on_u32, c11_ext_u32_on_i32, c11_ext_u32_on_u64, c11_ext_u32_on_i64, c11_ext_u32_on_f32, c11_ext_u32_on_f64,
    c11_ext_u32_on_empty, c11_ext_u32_on_tags);
extend_family!(extend_f32, f32, F32, f32b!(),
    c11_ext_f32_on_u8, c11_ext_f32_on_u16, c11_ext_f32_on_i16, c11_ext_f32_on_u32, c11_ext_f32_on_i32, c11_ext_f32_on_u64, c11_ext_f32_on_i64, c11_ext_f32_on_f32, c11_ext_f32_on_f64,
    c11_ext_f32_on_empty, c11_ext_f32_on_tags);
extend_family!(extend_f64, f64, F64, f64b!(),
    c11_ext_f64_on_u8, c11_ext_f64_on_u16, c11_ext_f64_on_i16, c11_ext_f64_on_u32, c11_ext_f64_on_i32, c11_ext_f64_on_u64, c11_ext_f64_on_i64, c11_ext_f64_on_f32, c11_ext_f64_on_f64,
    c11_ext_f64_on_empty, c11_ext_f64_on_tags);

/// `truncate(limit)` on a three-item value of variant `$var`: keeps the first min(3, limit) items, unchanged
macro_rules! truncate_contract {
    ($name:ident, $var:ident, $elem:ty, $bits:expr) => {
        #[kani::proof]
        #[kani::unwind(6)]
        pub fn $name() {
            let a: $elem = kani::any();
            let b: $elem = kani::any();
            let c: $elem = kani::any();
            let limit: usize = kani::any();
            let mut v = PrimitiveValue::$var(smallvec![a, b, c]);
            v.truncate(limit);
            let keep = if limit < 3 { limit } else { 3 };
            match &v {
                PrimitiveValue::$var(l) => {
                    assert!(l.len() == keep, "C11.truncate: cardinality becomes min(n, limit)");
                    let orig = [a, b, c];
                    let bits = $bits;
                    let mut i = 0;
                    while i < keep {
                        assert!(bits(l[i]) == bits(orig[i]), "C11.truncate: remaining items are the first ones, unchanged");
                        i += 1;
                    }
                }
                _ => assert!(false, "C11.truncate: the value keeps its type"),
            }
            core::mem::forget(v);
        }
    };
}
truncate_contract!(c11_truncate_u8, U8, u8, id!());
truncate_contract!(c11_truncate_i16, I16, i16, id!());
truncate_contract!(c11_truncate_u32, U32, u32, id!());
truncate_contract!(c11_truncate_i32, I32, i32, id!());
truncate_contract!(c11_truncate_u64, U64, u64, id!());
truncate_contract!(c11_truncate_i64, I64, i64, id!());
truncate_contract!(c11_truncate_f32, F32, f32, f32b!());
truncate_contract!(c11_truncate_f64, F64, f64, f64b!());

#[kani::proof]
#[kani::unwind(6)]
pub fn c11_truncate_tags() {
    let a: u32 = kani::any();
    let b: u32 = kani::any();
    let limit: usize = kani::any();
    let (ta, tb) = (Tag((a >> 16) as u16, a as u16), Tag((b >> 16) as u16, b as u16));
    let mut v = PrimitiveValue::Tags(smallvec![ta, tb]);
    v.truncate(limit);
    let keep = if limit < 2 { limit } else { 2 };
    match &v {
        PrimitiveValue::Tags(l) => {
            assert!(l.len() == keep, "C11.truncate: cardinality becomes min(n, limit)");
            if keep >= 1 { assert!(l[0] == ta, "C11.truncate: remaining items are the first ones, unchanged"); }
            if keep >= 2 { assert!(l[1] == tb, "C11.truncate: remaining items are the first ones, unchanged"); }
        }
        _ => assert!(false, "C11.truncate: the value keeps its type"),
    }
    core::mem::forget(v);
}

/// `truncate` never changes an Empty value
#[kani::proof]
#[kani::unwind(6)]
pub fn c11_truncate_empty() {
    let limit: usize = kani::any();
    let mut v = PrimitiveValue::Empty;
    v.truncate(limit);
    assert!(matches!(v, PrimitiveValue::Empty), "C11.truncate: an empty value stays empty");
}

/// single float conversion of a two-item value: the FIRST item, converted (`as`, exact for every integer
/// that the float type can hold); multi conversion: one result per item, in order
macro_rules! to_float_contract {
    ($name:ident, $var:ident, $src:ty, $single:ident, $multi:ident, $dst:ty) => {
        #[kani::proof]
        #[kani::unwind(6)]
        #[kani::stub(std::backtrace::Backtrace::force_capture, no_bt)]
        pub fn $name() {
            let a: $src = kani::any();
            let b: $src = kani::any();
            let v = PrimitiveValue::$var(smallvec![a, b]);
            match v.$single() {
                Ok(r) => assert!(canon(r as f64) == canon((a as $dst) as f64), "C11.to_float: the result is the first stored item"),
                Err(e) => {
                    core::mem::forget(e);
                    assert!(false, "C11.to_float: a binary number converts to a float");
                }
            }
            match v.$multi() {
                Ok(out) => {
                    assert!(out.len() == 2, "C11.multi: exactly one result per stored value");
                    assert!(canon(out[0] as f64) == canon((a as $dst) as f64) && canon(out[1] as f64) == canon((b as $dst) as f64), "C11.multi: results are the stored numbers, in order");
                    core::mem::forget(out);
                }
                Err(e) => {
                    core::mem::forget(e);
                    assert!(false, "C11.multi: binary numbers convert to floats");
                }
            }
            core::mem::forget(v);
        }
    };
}
to_float_contract!(c11_float32_from_u8, U8, u8, to_float32, to_multi_float32, f32);
to_float_contract!(c11_float32_from_u16, U16, u16, to_float32, to_multi_float32, f32);
to_float_contract!(c11_float32_from_i16, I16, i16, to_float32, to_multi_float32, f32);
to_float_contract!(c11_float32_from_u32, U32, u32, to_float32, to_multi_float32, f32);
to_float_contract!(c11_float32_from_i32, I32, i32, to_float32, to_multi_float32, f32);
to_float_contract!(c11_float32_from_u64, U64, u64, to_float32, to_multi_float32, f32);
to_float_contract!(c11_float32_from_i64, I64, i64, to_float32, to_multi_float32, f32);
to_float_contract!(c11_float32_from_f32, F32, f32, to_float32, to_multi_float32, f32);
to_float_contract!(c11_float64_from_u8, U8, u8, to_float64, to_multi_float64, f64);
to_float_contract!(c11_float64_from_u16, U16, u16, to_float64, to_multi_float64, f64);
to_float_contract!(c11_float64_from_i16, I16, i16, to_float64, to_multi_float64, f64);
to_float_contract!(c11_float64_from_u32, U32, u32, to_float64, to_multi_float64, f64);
to_float_contract!(c11_float64_from_i32, I32, i32, to_float64, to_multi_float64, f64);
to_float_contract!(c11_float64_from_u64, U64, u64, to_float64, to_multi_float64, f64);
to_float_contract!(c11_float64_from_i64, I64, i64, to_float64, to_multi_float64, f64);
to_float_contract!(c11_float64_from_f32, F32, f32, to_float64, to_multi_float64, f64);
to_float_contract!(c11_float64_from_f64, F64, f64, to_float64, to_multi_float64, f64);
