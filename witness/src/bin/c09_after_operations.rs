//! Native stand-in for the clause "this still holds after any supported attribute operation on the table"
//! of C09, on the compiled code: for base tables with no / all optional attributes (even- and odd-length
//! values), every attribute action kind is applied through `ApplyOp::apply` to each of the nine file meta
//! attributes that `FileMetaTable::apply` handles; afterwards (whether the operation succeeded or was
//! refused) the recorded group length must equal the number of bytes that `FileMetaTable::write` emits
//! after the group length element, and the written group must read back as an equal table.
use dicom_core::ops::{ApplyOp, AttributeAction, AttributeOp};
use dicom_core::{PrimitiveValue, Tag, VR};
use dicom_object::meta::{FileMetaTable, FileMetaTableBuilder};

fn actions() -> Vec<(&'static str, AttributeAction)> {
    vec![
        ("Remove", AttributeAction::Remove),
        ("Empty", AttributeAction::Empty),
        ("SetVr(LO)", AttributeAction::SetVr(VR::LO)),
        ("Set(\"1.2.3\")", AttributeAction::Set(PrimitiveValue::from("1.2.3"))),
        ("Set(\"1.2.34\")", AttributeAction::Set(PrimitiveValue::from("1.2.34"))),
        ("Set(U16 7)", AttributeAction::Set(PrimitiveValue::from(7u16))),
        ("SetStr(\"XY\")", AttributeAction::SetStr("XY".into())),
        ("SetStr(\"XYZ\")", AttributeAction::SetStr("XYZ".into())),
        ("SetIfMissing(\"QRS\")", AttributeAction::SetIfMissing(PrimitiveValue::from("QRS"))),
        ("SetIfMissing(\"QRST\")", AttributeAction::SetIfMissing(PrimitiveValue::from("QRST"))),
        ("SetStrIfMissing(\"Q\")", AttributeAction::SetStrIfMissing("Q".into())),
        ("SetStrIfMissing(\"QR\")", AttributeAction::SetStrIfMissing("QR".into())),
        ("Replace(\"9.8.7\")", AttributeAction::Replace(PrimitiveValue::from("9.8.7"))),
        ("Replace(\"9.8\")", AttributeAction::Replace(PrimitiveValue::from("9.8"))),
        ("ReplaceStr(\"R\")", AttributeAction::ReplaceStr("R".into())),
        ("ReplaceStr(\"RS\")", AttributeAction::ReplaceStr("RS".into())),
        ("PushStr(\"P\")", AttributeAction::PushStr("P".into())),
        ("PushU16(1)", AttributeAction::PushU16(1)),
        ("Truncate(0)", AttributeAction::Truncate(0)),
        ("Truncate(1)", AttributeAction::Truncate(1)),
    ]
}

fn main() {
    let (mut cases, mut bad) = (0u64, 0u64);
    let tags = [
        Tag(0x0002, 0x0002), Tag(0x0002, 0x0003), Tag(0x0002, 0x0010), Tag(0x0002, 0x0012), Tag(0x0002, 0x0013),
        Tag(0x0002, 0x0016), Tag(0x0002, 0x0017), Tag(0x0002, 0x0018), Tag(0x0002, 0x0100), Tag(0x0002, 0x0102), Tag(0x0008, 0x0018),
    ];
    for base in 0..4u8 {
        let mut b = FileMetaTableBuilder::new()
            .media_storage_sop_class_uid("1.2.840.10008.5.1.4.1.1.1")
            .media_storage_sop_instance_uid(if base & 1 == 0 { "2.25.1234567" } else { "2.25.12345678" })
            .transfer_syntax("1.2.840.10008.1.2.1");
        if base >= 2 {
            b = b.implementation_version_name(if base == 2 { "AB" } else { "ABC" })
                .source_application_entity_title(if base == 2 { "SRC" } else { "SRCE" })
                .sending_application_entity_title("SND")
                .receiving_application_entity_title("RCVR")
                .private_information_creator_uid(if base == 2 { "1.2.3" } else { "1.2.34" })
                .private_information(vec![1, 2, 3]);
        }
        let table0: FileMetaTable = b.build().expect("base table");
        for tag in tags {
            for (name, action) in actions() {
                // one operation, and two operations in sequence (the second on the version name)
                for second in [false, true] {
                    cases += 1;
                    let mut table = table0.clone();
                    let r1 = table.apply(AttributeOp::new(tag, action.clone()));
                    if second {
                        let _ = table.apply(AttributeOp::new(Tag(0x0002, 0x0013), AttributeAction::SetStrIfMissing("V".into())));
                    }
                    let mut out = Vec::new();
                    if let Err(e) = table.write(&mut out) { bad += 1; println!("WITNESS unit=C09.after_operations base={} {} on {}: write failed: {}", base, name, tag, e); continue; }
                    let head_ok = out.len() >= 12 && out[0..8] == [0x02, 0x00, 0x00, 0x00, b'U', b'L', 0x04, 0x00];
                    let recorded = if head_ok { u32::from_le_bytes([out[8], out[9], out[10], out[11]]) } else { u32::MAX };
                    let following = out.len().saturating_sub(12);
                    let mut with_magic = b"DICM".to_vec();
                    with_magic.extend_from_slice(&out);
                    let same = matches!(FileMetaTable::from_reader(&with_magic[..]), Ok(t) if t == table);
                    if !head_ok || recorded as usize != following || recorded != table.information_group_length || !same {
                        bad += 1;
                        if bad <= 6 {
                            println!("WITNESS unit=C09.after_operations base table {} ({}), operation {} on {} (result {}){}: recorded group length {} (field {}), but {} bytes follow the group length element; read back equal: {}",
                                base, if base >= 2 { "all optional attributes" } else { "no optional attributes" }, name, tag,
                                if r1.is_ok() { "Ok" } else { "Err" }, if second { ", then SetStrIfMissing(\"V\") on (0002,0013)" } else { "" },
                                recorded, table.information_group_length, following, same);
                        }
                    }
                }
            }
        }
    }
    println!("EXHAUSTIVE unit=C09.after_operations cases={} mismatches={}", cases, bad);
}
