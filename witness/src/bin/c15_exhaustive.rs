//! Exhaustive stand-in for C15 (labelled: enumeration of the compiled code, not a deductive proof):
//! for EVERY one of the 2^32 tags, compare the real `StandardDataDictionary::by_tag` with the
//! precedence of the property statement evaluated over the published table, which is read
//! independently from the *text* of dictionary-std/src/tags.rs (constants + ENTRIES rows).
use dicom_core::dictionary::{DataDictionary, DataDictionaryEntry, TagRange};
use dicom_core::Tag;
use dicom_dictionary_std::StandardDataDictionary;
use std::collections::HashMap;
use std::sync::atomic::{AtomicU64, Ordering};
use std::sync::Mutex;

#[derive(Clone, Copy, PartialEq, Eq, Debug)]
enum Kind { Single, Group100, Element100 }

fn parse_tag(s: &str) -> Option<(u16, u16)> {
    // "Tag(0x6000, 0x3000)"
    let a = s.find("Tag(")? + 4;
    let b = s[a..].find(')')? + a;
    let mut it = s[a..b].split(',').map(|x| u16::from_str_radix(x.trim().trim_start_matches("0x"), 16).ok());
    Some((it.next()??, it.next()??))
}

fn main() {
    let text = std::fs::read_to_string("/repo/dictionary-std/src/tags.rs").expect("tags.rs");
    // 1. constants
    let mut consts: HashMap<String, (Kind, (u16, u16))> = HashMap::new();
    for ln in text.lines() {
        let ln = ln.trim();
        if let Some(rest) = ln.strip_prefix("pub const ") {
            if let Some(colon) = rest.find(':') {
                let name = rest[..colon].trim().to_string();
                let rhs = &rest[colon + 1..];
                let kind = if rhs.contains("Group100(") { Kind::Group100 } else if rhs.contains("Element100(") { Kind::Element100 } else { Kind::Single };
                if rhs.trim_start().starts_with("Tag ") || rhs.trim_start().starts_with("Tag=") || rhs.contains(": Tag") || rhs.trim_start().starts_with("Tag") || rhs.trim_start().starts_with("TagRange") {
                    if let Some(t) = parse_tag(rhs) { consts.insert(name, (kind, t)); }
                }
            }
        }
    }
    // 2. ENTRIES rows
    let start = text.find("const ENTRIES").expect("ENTRIES");
    let mut table: Vec<(Kind, (u16, u16), String)> = Vec::new();
    for ln in text[start..].lines() {
        let ln = ln.trim();
        if !ln.starts_with("E {") { continue; }
        let a = ln.find("tag:").unwrap() + 4;
        let b = ln.find(", alias:").unwrap();
        let tagexpr = ln[a..b].trim();
        let alias = { let x = ln.find("alias: \"").unwrap() + 8; let y = ln[x..].find('"').unwrap() + x; ln[x..y].to_string() };
        let (kind, t) = if let Some(inner) = tagexpr.strip_prefix("Single(") {
            let name = inner.trim_end_matches(')');
            (Kind::Single, consts.get(name).map(|c| c.1).or_else(|| parse_tag(inner)).expect("const"))
        } else if tagexpr.starts_with("Group100(") {
            (Kind::Group100, parse_tag(tagexpr).expect("tag"))
        } else if tagexpr.starts_with("Element100(") {
            (Kind::Element100, parse_tag(tagexpr).expect("tag"))
        } else {
            let c = consts.get(tagexpr).unwrap_or_else(|| panic!("unknown const {}", tagexpr));
            (c.0, c.1)
        };
        table.push((kind, t, alias));
    }
    assert!(table.len() > 4000, "table parsed: {} rows", table.len());
    let key = |t: (u16, u16)| ((t.0 as u32) << 16) | t.1 as u32;
    let mut exact: HashMap<u32, usize> = HashMap::new();
    let mut g100: HashMap<u32, usize> = HashMap::new();
    let mut e100: HashMap<u32, usize> = HashMap::new();
    for (i, (k, t, _)) in table.iter().enumerate() {
        exact.insert(key(*t), i); // every entry is an exact entry for the tag it is published under
        match k { Kind::Group100 => { g100.insert(key(*t), i); } Kind::Element100 => { e100.insert(key(*t), i); } _ => {} }
    }
    // 3. all 2^32 tags, 16 workers
    let mismatches = AtomicU64::new(0);
    let shown = Mutex::new(Vec::<String>::new());
    let nthreads = 16u32;
    std::thread::scope(|s| {
        for w in 0..nthreads {
            let (exact, g100, e100, table, mismatches, shown) = (&exact, &g100, &e100, &table, &mismatches, &shown);
            s.spawn(move || {
                let dict = StandardDataDictionary;
                let mut g = w;
                while g <= 0xFFFF {
                    for e in 0u32..=0xFFFF {
                        let (g16, e16) = (g as u16, e as u16);
                        let k = (g << 16) | e;
                        // the statement's precedence
                        let kname = |k: Kind| match k { Kind::Single => "Single", Kind::Group100 => "Group100", Kind::Element100 => "Element100" };
                        let spec: Option<(&str, &str)> = if let Some(&i) = exact.get(&k) { Some((kname(table[i].0), table[i].2.as_str())) }
                            else if let Some(&i) = g100.get(&(((g & 0xFF00) << 16) | e)) { Some((kname(table[i].0), table[i].2.as_str())) }
                            else if let Some(&i) = e100.get(&((g << 16) | (e & 0xFF00))) { Some((kname(table[i].0), table[i].2.as_str())) }
                            else if g & 1 == 1 && (0x0010..=0x00FF).contains(&e) { Some(("PrivateCreator", "PrivateCreator")) }
                            else if e == 0 { Some(("GroupLength", "GenericGroupLength")) }
                            else { None };
                        let got = dict.by_tag(Tag(g16, e16)).map(|en| {
                            let kind = match en.tag_range() { TagRange::Single(_) => "Single", TagRange::Group100(_) => "Group100", TagRange::Element100(_) => "Element100", TagRange::GroupLength => "GroupLength", TagRange::PrivateCreator => "PrivateCreator" };
                            (kind, en.alias())
                        });
                        let same = match (&spec, &got) { (None, None) => true, (Some(a), Some(b)) => a.0 == b.0 && a.1 == b.1, _ => false };
                        if !same {
                            mismatches.fetch_add(1, Ordering::Relaxed);
                            let mut sh = shown.lock().unwrap();
                            if sh.len() < 6 { sh.push(format!("WITNESS unit=C15.exhaustive tag=({:04X},{:04X}) by_tag={:?} prescribed={:?}", g16, e16, got, spec)); }
                        }
                    }
                    g += nthreads;
                }
            });
        }
    });
    for l in shown.lock().unwrap().iter() { println!("{}", l); }
    println!("EXHAUSTIVE unit=C15.exhaustive cases=4294967296 table_rows={} mismatches={}", table.len(), mismatches.load(Ordering::Relaxed));
}
