//! Exhaustive stand-in for C09 over a finite family of tables: every presence combination of the six
//! optional attributes, each with an even- and an odd-length value (private information also with bytes above 0x7F,
//! empty, and all 256 byte values; odd/even mandatory UIDs), is built
//! with the real builder, written with the real `FileMetaTable::write`, and (a) the recorded group length
//! is compared with the number of bytes that follow the group length element in the written group,
//! (b) the written group is read back with `FileMetaTable::from_reader` and compared with the table.
use dicom_object::meta::{FileMetaTable, FileMetaTableBuilder};

fn main() {
    let (mut cases, mut bad) = (0u64, 0u64);
    let texts = [None, Some("AB"), Some("ABC")];
    // private information is binary (OB): bytes above 0x7F, NUL and an empty value included
    let blobs: [Option<Vec<u8>>; 7] = [None, Some(vec![1, 2]), Some(vec![1, 2, 3]), Some(vec![0x80, 0xFF]), Some(vec![0x00, 0x7F, 0x80, 0xE9, 0xFF]), Some(vec![]), Some((0..=255u8).collect())];
    for sop in ["1.2.840.10008.5.1.4.1.1.1", "1.2.840.10008.5.1.4.1.1.20"] {
        for vn in texts { for src in texts { for snd in texts { for rcv in texts { for cre in [None, Some("1.2.3"), Some("1.2.34")] { for blob in &blobs {
            cases += 1;
            let mut b = FileMetaTableBuilder::new()
                .media_storage_sop_class_uid(sop)
                .media_storage_sop_instance_uid("2.25.1234567")
                .transfer_syntax("1.2.840.10008.1.2.1");
            if let Some(v) = vn { b = b.implementation_version_name(v); }
            if let Some(v) = src { b = b.source_application_entity_title(v); }
            if let Some(v) = snd { b = b.sending_application_entity_title(v); }
            if let Some(v) = rcv { b = b.receiving_application_entity_title(v); }
            if let Some(c) = cre { b = b.private_information_creator_uid(c); }
            if let Some(v) = blob { b = b.private_information(v.clone()); }
            let table: FileMetaTable = match b.build() { Ok(t) => t, Err(e) => { bad += 1; println!("WITNESS unit=C09.written_length build failed: {}", e); continue; } };
            let mut out = Vec::new();
            if let Err(e) = table.write(&mut out) { bad += 1; println!("WITNESS unit=C09.written_length write failed: {}", e); continue; }
            // group length element: (0002,0000) UL 4 -> 12 bytes
            let head_ok = out.len() >= 12 && out[0..8] == [0x02, 0x00, 0x00, 0x00, b'U', b'L', 0x04, 0x00];
            let recorded = if head_ok { u32::from_le_bytes([out[8], out[9], out[10], out[11]]) } else { u32::MAX };
            let following = out.len().saturating_sub(12);
            let mut with_magic = b"DICM".to_vec();
            with_magic.extend_from_slice(&out);
            let back = FileMetaTable::from_reader(&with_magic[..]);
            let same = matches!(&back, Ok(t) if *t == table);
            if !head_ok || recorded as usize != following || recorded != table.information_group_length || !same {
                bad += 1;
                if bad <= 6 {
                    println!("WITNESS unit=C09.written_length version_name={:?} source_ae={:?} sending_ae={:?} receiving_ae={:?} private_information={:?} creator={:?}: recorded group length {} but {} bytes follow the group length element; read back equal: {}",
                        vn, src, snd, rcv, blob, cre, recorded, following, same);
                }
            }
        }}}}}}
    }
    println!("EXHAUSTIVE unit=C09.written_length cases={} mismatches={}", cases, bad);
}
