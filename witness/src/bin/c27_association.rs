//! Native stand-in for C27 at ASSOCIATION level on the compiled code (not a deductive result): bytes that arrive
//! in the same transport read as an earlier PDU must not be lost when the association changes hands.
//!  (1) requestor side: a hand-written acceptor (raw TCP thread) answers the A-ASSOCIATE-RQ with the bytes of an
//!      A-ASSOCIATE-AC followed IMMEDIATELY, in ONE write, by a P-DATA-TF PDU and an A-RELEASE-RQ: after
//!      `establish`, successive `receive()` calls must return exactly those two PDUs, in order;
//!      the same with `receive_pdata()` reading the payload and `receive()` returning the A-RELEASE-RQ after it;
//!  (2) acceptor side: a hand-written requestor sends A-ASSOCIATE-RQ + P-DATA-TF + A-RELEASE-RQ in ONE write:
//!      after `establish`, `receive()` returns the two PDUs in order;
//!  (3) the same three-PDU stream delivered byte by byte;
//!  (4) the asynchronous requestor (tokio) against the same hand-written acceptor.
//! Skipped (never failed) where the sandbox has no loopback TCP.
use dicom_ul::association::client::ClientAssociationOptions;
use dicom_ul::association::server::ServerAssociationOptions;
use dicom_ul::pdu::*;
use std::io::{Read, Write};
use std::net::{TcpListener, TcpStream};
use std::time::Duration;

const ABSTRACT: &str = "1.2.840.10008.1.1";
const IMPLICIT: &str = "1.2.840.10008.1.2";

struct Tally { cases: u64, bad: u64 }
impl Tally {
    fn check(&mut self, ok: bool, what: impl FnOnce() -> String) {
        self.cases += 1;
        if !ok { self.bad += 1; if self.bad <= 8 { println!("WITNESS unit=C27.association {}", what()); } }
    }
}

fn pdata(bytes: &[u8]) -> Pdu { Pdu::PData { data: vec![PDataValue { presentation_context_id: 1, value_type: PDataValueType::Data, is_last: true, data: bytes.to_vec() }] } }

fn read_one_pdu(s: &mut TcpStream) -> Option<Pdu> {
    let mut head = [0u8; 6];
    s.read_exact(&mut head).ok()?;
    let len = u32::from_be_bytes([head[2], head[3], head[4], head[5]]) as usize;
    let mut body = vec![0u8; len];
    s.read_exact(&mut body).ok()?;
    let mut all = head.to_vec();
    all.extend_from_slice(&body);
    read_pdu(&mut std::io::Cursor::new(&all[..]), MAXIMUM_PDU_SIZE, false).ok()?
}

fn main() {
    let mut t = Tally { cases: 0, bad: 0 };
    let probe = match TcpListener::bind("127.0.0.1:0") { Ok(l) => l, Err(e) => { println!("SKIPPED unit=C27.association reason=loopback TCP unavailable: {}", e); return; } };
    drop(probe);
    let payload = [7u8, 8, 9, 10, 11];
    for byte_by_byte in [false, true] {
        for use_pdata_reader in [false, true] {
            // (1) requestor side
            let listener = TcpListener::bind("127.0.0.1:0").unwrap();
            let addr = listener.local_addr().unwrap();
            let peer = std::thread::spawn(move || -> Option<()> {
                let (mut s, _) = listener.accept().ok()?;
                s.set_read_timeout(Some(Duration::from_secs(60))).ok()?;
                let rq = read_one_pdu(&mut s)?;
                let contexts = match rq { Pdu::AssociationRQ(rq) => rq.presentation_contexts, _ => return None };
                let ac = Pdu::AssociationAC(AssociationAC { protocol_version: 1, calling_ae_title: "THIS-SCU".into(), called_ae_title: "ANY-SCP".into(),
                    application_context_name: "1.2.840.10008.3.1.1.1".into(),
                    presentation_contexts: contexts.iter().map(|c| PresentationContextResult { id: c.id, reason: PresentationContextResultReason::Acceptance, transfer_syntax: IMPLICIT.into() }).collect(),
                    user_variables: vec![UserVariableItem::MaxLength(16384), UserVariableItem::ImplementationClassUID("1.2.3".into())] });
                let mut bytes = Vec::new();
                write_pdu(&mut bytes, &ac).ok()?;
                write_pdu(&mut bytes, &pdata(&payload)).ok()?;
                write_pdu(&mut bytes, &Pdu::ReleaseRQ).ok()?;
                if byte_by_byte { for b in &bytes { s.write_all(&[*b]).ok()?; s.flush().ok()?; } } else { s.write_all(&bytes).ok()?; }
                // wait for the release reply (or the close)
                let _ = read_one_pdu(&mut s);
                Some(())
            });
            let label = format!("requestor, acceptor sends AC + P-DATA + RELEASE-RQ {}{}", if byte_by_byte { "byte by byte" } else { "in one write" }, if use_pdata_reader { ", payload read through receive_pdata()" } else { "" });
            match ClientAssociationOptions::new().with_abstract_syntax(ABSTRACT).read_timeout(Duration::from_secs(60)).establish(addr) {
                Ok(mut assoc) => {
                    if use_pdata_reader {
                        let mut got = Vec::new();
                        let r = assoc.receive_pdata().read_to_end(&mut got);
                        t.check(r.is_ok() && got == payload, || format!("{}: payload {:?} (result {:?}), expected {:?}", label, got, r.map_err(|e| e.to_string()), payload));
                    } else {
                        let p = assoc.receive();
                        t.check(matches!(&p, Ok(x) if *x == pdata(&payload)), || format!("{}: first receive() = {:?}", label, p.map(|x| x.short_description().to_string()).map_err(|e| e.to_string())));
                    }
                    let p = assoc.receive();
                    t.check(matches!(&p, Ok(Pdu::ReleaseRQ)), || format!("{}: next receive() = {:?}, expected A-RELEASE-RQ", label, p.map(|x| x.short_description().to_string()).map_err(|e| e.to_string())));
                    let _ = assoc.send(&Pdu::ReleaseRP);
                }
                Err(e) => t.check(false, || format!("{}: establish failed: {}", label, e)),
            }
            let _ = peer.join();
        }
        // (2) acceptor side
        let listener = TcpListener::bind("127.0.0.1:0").unwrap();
        let addr = listener.local_addr().unwrap();
        let peer = std::thread::spawn(move || -> Option<()> {
            let mut s = TcpStream::connect(addr).ok()?;
            s.set_read_timeout(Some(Duration::from_secs(60))).ok()?;
            let rq = Pdu::AssociationRQ(AssociationRQ { protocol_version: 1, calling_ae_title: "RAW-SCU".into(), called_ae_title: "ANY-SCP".into(), application_context_name: "1.2.840.10008.3.1.1.1".into(),
                presentation_contexts: vec![PresentationContextProposed { id: 1, abstract_syntax: ABSTRACT.into(), transfer_syntaxes: vec![IMPLICIT.into()] }],
                user_variables: vec![UserVariableItem::MaxLength(16384), UserVariableItem::ImplementationClassUID("1.2.3".into())] });
            let mut bytes = Vec::new();
            write_pdu(&mut bytes, &rq).ok()?;
            write_pdu(&mut bytes, &pdata(&payload)).ok()?;
            write_pdu(&mut bytes, &Pdu::ReleaseRQ).ok()?;
            if byte_by_byte { for b in &bytes { s.write_all(&[*b]).ok()?; s.flush().ok()?; } } else { s.write_all(&bytes).ok()?; }
            let _ = read_one_pdu(&mut s); // AC
            let _ = read_one_pdu(&mut s); // release reply
            Some(())
        });
        let label = format!("acceptor, requestor sends RQ + P-DATA + RELEASE-RQ {}", if byte_by_byte { "byte by byte" } else { "in one write" });
        match listener.accept() {
            Ok((stream, _)) => {
                let _ = stream.set_read_timeout(Some(Duration::from_secs(60)));
                match ServerAssociationOptions::new().accept_any().with_abstract_syntax(ABSTRACT).establish(stream) {
                    Ok(mut assoc) => {
                        let p = assoc.receive();
                        t.check(matches!(&p, Ok(x) if *x == pdata(&payload)), || format!("{}: first receive() = {:?}", label, p.map(|x| x.short_description().to_string()).map_err(|e| e.to_string())));
                        let p = assoc.receive();
                        t.check(matches!(&p, Ok(Pdu::ReleaseRQ)), || format!("{}: next receive() = {:?}, expected A-RELEASE-RQ", label, p.map(|x| x.short_description().to_string()).map_err(|e| e.to_string())));
                        let _ = assoc.send(&Pdu::ReleaseRP);
                    }
                    Err(e) => t.check(false, || format!("{}: establish failed: {}", label, e)),
                }
            }
            Err(e) => t.check(false, || format!("{}: accept failed: {}", label, e)),
        }
        let _ = peer.join();
    }
    // (4) the ASYNCHRONOUS requestor: same hand-written acceptor, AC + P-DATA + RELEASE-RQ in one write and byte by byte
    let rt = tokio::runtime::Builder::new_multi_thread().worker_threads(2).enable_all().build().expect("runtime");
    for byte_by_byte in [false, true] {
        let listener = TcpListener::bind("127.0.0.1:0").unwrap();
        let addr = listener.local_addr().unwrap();
        let peer = std::thread::spawn(move || -> Option<()> {
            let (mut s, _) = listener.accept().ok()?;
            s.set_read_timeout(Some(Duration::from_secs(60))).ok()?;
            let rq = read_one_pdu(&mut s)?;
            let contexts = match rq { Pdu::AssociationRQ(rq) => rq.presentation_contexts, _ => return None };
            let ac = Pdu::AssociationAC(AssociationAC { protocol_version: 1, calling_ae_title: "THIS-SCU".into(), called_ae_title: "ANY-SCP".into(),
                application_context_name: "1.2.840.10008.3.1.1.1".into(),
                presentation_contexts: contexts.iter().map(|c| PresentationContextResult { id: c.id, reason: PresentationContextResultReason::Acceptance, transfer_syntax: IMPLICIT.into() }).collect(),
                user_variables: vec![UserVariableItem::MaxLength(16384), UserVariableItem::ImplementationClassUID("1.2.3".into())] });
            let mut bytes = Vec::new();
            write_pdu(&mut bytes, &ac).ok()?;
            write_pdu(&mut bytes, &pdata(&payload)).ok()?;
            write_pdu(&mut bytes, &Pdu::ReleaseRQ).ok()?;
            if byte_by_byte { for b in &bytes { s.write_all(&[*b]).ok()?; s.flush().ok()?; } } else { s.write_all(&bytes).ok()?; }
            let _ = read_one_pdu(&mut s);
            Some(())
        });
        let label = format!("asynchronous requestor, acceptor sends AC + P-DATA + RELEASE-RQ {}", if byte_by_byte { "byte by byte" } else { "in one write" });
        let results = rt.block_on(async {
            match tokio::time::timeout(Duration::from_secs(60), ClientAssociationOptions::new().with_abstract_syntax(ABSTRACT).establish_async(addr)).await {
                Ok(Ok(mut assoc)) => {
                    let a = tokio::time::timeout(Duration::from_secs(60), assoc.receive()).await.map_err(|_| "timeout".to_string()).and_then(|r| r.map_err(|e| e.to_string()));
                    let b = tokio::time::timeout(Duration::from_secs(60), assoc.receive()).await.map_err(|_| "timeout".to_string()).and_then(|r| r.map_err(|e| e.to_string()));
                    let _ = assoc.send(&Pdu::ReleaseRP).await;
                    Ok((a, b))
                }
                Ok(Err(e)) => Err(e.to_string()),
                Err(_) => Err("timeout".to_string()),
            }
        });
        match results {
            Ok((a, b)) => {
                t.check(matches!(&a, Ok(x) if *x == pdata(&payload)), || format!("{}: first receive() = {:?}", label, a.map(|x| x.short_description().to_string())));
                t.check(matches!(&b, Ok(Pdu::ReleaseRQ)), || format!("{}: next receive() = {:?}, expected A-RELEASE-RQ", label, b.map(|x| x.short_description().to_string())));
            }
            Err(e) => t.check(false, || format!("{}: establish failed: {}", label, e)),
        }
        let _ = peer.join();
    }
    println!("EXHAUSTIVE unit=C27.association cases={} mismatches={}", t.cases, t.bad);
}
