//! Shared spec tables (written from PS3.5, not copied from the code) and helpers.
//! Included by the harness crate and by in-module harnesses; the includer provides
//! `dc` = the dicom-core crate (`use dicom_core as dc;` or `use crate as dc;`).
#![allow(dead_code, unused_imports)]
use super::dc::VR;

/// Stub for `Backtrace::force_capture` (rule 1 of DESIGN.md section 2).
pub fn no_bt() -> std::backtrace::Backtrace {
    std::backtrace::Backtrace::disabled()
}

/// The 34 defined value representations, with their two-letter code and whether
/// PS3.5 7.1.2 gives them the 16-bit length form (Table 7.1-2).
pub const VRS: [(VR, [u8; 2], bool); 34] = [
    (VR::AE, *b"AE", true),
    (VR::AS, *b"AS", true),
    (VR::AT, *b"AT", true),
    (VR::CS, *b"CS", true),
    (VR::DA, *b"DA", true),
    (VR::DS, *b"DS", true),
    (VR::DT, *b"DT", true),
    (VR::FL, *b"FL", true),
    (VR::FD, *b"FD", true),
    (VR::IS, *b"IS", true),
    (VR::LO, *b"LO", true),
    (VR::LT, *b"LT", true),
    (VR::OB, *b"OB", false),
    (VR::OD, *b"OD", false),
    (VR::OF, *b"OF", false),
    (VR::OL, *b"OL", false),
    (VR::OV, *b"OV", false),
    (VR::OW, *b"OW", false),
    (VR::PN, *b"PN", true),
    (VR::SH, *b"SH", true),
    (VR::SL, *b"SL", true),
    (VR::SQ, *b"SQ", false),
    (VR::SS, *b"SS", true),
    (VR::ST, *b"ST", true),
    (VR::SV, *b"SV", false),
    (VR::TM, *b"TM", true),
    (VR::UC, *b"UC", false),
    (VR::UI, *b"UI", true),
    (VR::UL, *b"UL", true),
    (VR::UN, *b"UN", false),
    (VR::UR, *b"UR", false),
    (VR::US, *b"US", true),
    (VR::UT, *b"UT", false),
    (VR::UV, *b"UV", false),
];

/// Any of the 34 VRs, with its code and length class.
pub fn any_vr() -> (VR, [u8; 2], bool) {
    let i: usize = kani::any();
    kani::assume(i < 34);
    VRS[i]
}

#[derive(Clone, Copy, PartialEq, Eq)]
pub enum Ts {
    ImplicitLe,
    ExplicitLe,
    ExplicitBe,
}

fn put16(ts: Ts, v: u16) -> [u8; 2] {
    match ts {
        Ts::ExplicitBe => [(v >> 8) as u8, v as u8],
        _ => [v as u8, (v >> 8) as u8],
    }
}
fn put32(ts: Ts, v: u32) -> [u8; 4] {
    match ts {
        Ts::ExplicitBe => [(v >> 24) as u8, (v >> 16) as u8, (v >> 8) as u8, v as u8],
        _ => [v as u8, (v >> 8) as u8, (v >> 16) as u8, (v >> 24) as u8],
    }
}

/// PS3.5 7.1.2 / 7.1.3 header layout: returns (bytes, n) or None when the
/// length cannot be expressed in the 16-bit form.
pub fn spec_header(
    ts: Ts,
    group: u16,
    element: u16,
    code: [u8; 2],
    short: bool,
    len: u32,
) -> Option<([u8; 12], usize)> {
    let mut b = [0u8; 12];
    let g = put16(ts, group);
    let e = put16(ts, element);
    b[0] = g[0];
    b[1] = g[1];
    b[2] = e[0];
    b[3] = e[1];
    match ts {
        Ts::ImplicitLe => {
            let l = put32(ts, len);
            b[4] = l[0];
            b[5] = l[1];
            b[6] = l[2];
            b[7] = l[3];
            Some((b, 8))
        }
        _ => {
            b[4] = code[0];
            b[5] = code[1];
            if short {
                if len > 0xFFFF {
                    return None;
                }
                let l = put16(ts, len as u16);
                b[6] = l[0];
                b[7] = l[1];
                Some((b, 8))
            } else {
                let l = put32(ts, len);
                b[8] = l[0];
                b[9] = l[1];
                b[10] = l[2];
                b[11] = l[3];
                Some((b, 12))
            }
        }
    }
}

/// Item / delimiter layout: tag (FFFE,elem) + 32-bit length.
pub fn spec_item(ts: Ts, element: u16, len: u32) -> [u8; 8] {
    let g = put16(ts, 0xFFFE);
    let e = put16(ts, element);
    let l = put32(ts, len);
    [g[0], g[1], e[0], e[1], l[0], l[1], l[2], l[3]]
}

// ------------------------------------------------------------------------
// Symbolic data dictionary: the callee behind `D: DataDictionary` is
// represented by its contract only — it answers one (arbitrary, fixed)
// `Option<entry>` for the tag that is looked up.
use super::dc::dictionary::{DataDictionary, DataDictionaryEntryRef, TagRange, VirtualVr};
use super::dc::Tag;

pub struct SymDict {
    pub entry: Option<DataDictionaryEntryRef<'static>>,
}

pub fn any_virtual_vr() -> VirtualVr {
    let k: u8 = kani::any();
    kani::assume(k < 5);
    match k {
        0 => VirtualVr::Exact(any_vr().0),
        1 => VirtualVr::Xs,
        2 => VirtualVr::Ox,
        3 => VirtualVr::Px,
        _ => VirtualVr::Lt,
    }
}

impl SymDict {
    pub fn any_for(tag: Tag) -> (Self, Option<VirtualVr>) {
        if kani::any() {
            let vvr = any_virtual_vr();
            (
                SymDict { entry: Some(DataDictionaryEntryRef { tag: TagRange::Single(tag), alias: "X", vr: vvr }) },
                Some(vvr),
            )
        } else {
            (SymDict { entry: None }, None)
        }
    }
}

impl DataDictionary for SymDict {
    type Entry = DataDictionaryEntryRef<'static>;
    fn by_tag(&self, _tag: Tag) -> Option<&Self::Entry> {
        self.entry.as_ref()
    }
    fn by_name(&self, _name: &str) -> Option<&Self::Entry> {
        None
    }
}

/// Documented relaxation of a virtual VR (dictionary crate docs).
pub fn spec_relaxed(v: VirtualVr) -> VR {
    match v {
        VirtualVr::Exact(vr) => vr,
        VirtualVr::Xs => VR::US,
        _ => VR::OW,
    }
}

/// look a two-byte code up in the PS3.5 table (Table 7.1-1/7.1-2: true = 16-bit length form)
pub fn spec_vr_of_code(code: [u8; 2]) -> Option<(VR, bool)> {
    match &code {
        b"AE" => Some((VR::AE, true)),
        b"AS" => Some((VR::AS, true)),
        b"AT" => Some((VR::AT, true)),
        b"CS" => Some((VR::CS, true)),
        b"DA" => Some((VR::DA, true)),
        b"DS" => Some((VR::DS, true)),
        b"DT" => Some((VR::DT, true)),
        b"FL" => Some((VR::FL, true)),
        b"FD" => Some((VR::FD, true)),
        b"IS" => Some((VR::IS, true)),
        b"LO" => Some((VR::LO, true)),
        b"LT" => Some((VR::LT, true)),
        b"OB" => Some((VR::OB, false)),
        b"OD" => Some((VR::OD, false)),
        b"OF" => Some((VR::OF, false)),
        b"OL" => Some((VR::OL, false)),
        b"OV" => Some((VR::OV, false)),
        b"OW" => Some((VR::OW, false)),
        b"PN" => Some((VR::PN, true)),
        b"SH" => Some((VR::SH, true)),
        b"SL" => Some((VR::SL, true)),
        b"SQ" => Some((VR::SQ, false)),
        b"SS" => Some((VR::SS, true)),
        b"ST" => Some((VR::ST, true)),
        b"SV" => Some((VR::SV, false)),
        b"TM" => Some((VR::TM, true)),
        b"UC" => Some((VR::UC, false)),
        b"UI" => Some((VR::UI, true)),
        b"UL" => Some((VR::UL, true)),
        b"UN" => Some((VR::UN, false)),
        b"UR" => Some((VR::UR, false)),
        b"US" => Some((VR::US, true)),
        b"UT" => Some((VR::UT, false)),
        b"UV" => Some((VR::UV, false)),
        _ => None,
    }
}

pub fn get16(ts: Ts, b: &[u8]) -> u16 {
    match ts {
        Ts::ExplicitBe => ((b[0] as u16) << 8) | b[1] as u16,
        _ => ((b[1] as u16) << 8) | b[0] as u16,
    }
}
pub fn get32(ts: Ts, b: &[u8]) -> u32 {
    match ts {
        Ts::ExplicitBe => ((b[0] as u32) << 24) | ((b[1] as u32) << 16) | ((b[2] as u32) << 8) | b[3] as u32,
        _ => ((b[3] as u32) << 24) | ((b[2] as u32) << 16) | ((b[1] as u32) << 8) | b[0] as u32,
    }
}

/// What PS3.5 7.1 says a decoder must read from the first bytes of `src`
/// (explicit codecs): (group, element, vr or None if the code is undefined, len, header size)
pub fn spec_decode_explicit(ts: Ts, src: &[u8; 12]) -> (u16, u16, Option<VR>, u32, usize) {
    let g = get16(ts, &src[0..2]);
    let e = get16(ts, &src[2..4]);
    if g == 0xFFFE {
        return (g, e, Some(VR::UN), get32(ts, &src[4..8]), 8);
    }
    match spec_vr_of_code([src[4], src[5]]) {
        Some((vr, true)) => (g, e, Some(vr), get16(ts, &src[6..8]) as u32, 8),
        Some((vr, false)) => (g, e, Some(vr), get32(ts, &src[8..12]), 12),
        None => (g, e, None, get32(ts, &src[8..12]), 12),
    }
}
