//! Native stand-in for the textual clauses of C11 on the compiled code (not a deductive result; `str`
//! parsing, `to_string` and `String` handling are outside both verifiers):
//!  * to_int / to_multi_int / to_float32 / to_float64 / to_multi_float32 / to_multi_float64 on `Str` and
//!    `Strs` values: numbers are parsed after trimming spaces and NULs (any mix, both ends); single-valued
//!    conversions take the FIRST string; multi-valued ones return exactly one result per stored string, in
//!    order; a string that is not a number (incl. the empty string, a number with inner space, a value out
//!    of range of the target type) makes the conversion fail, never wrap or skip;
//!  * extend_str on Empty / Str / Strs and on non-textual values; extend_u16 / i16 / i32 / u32 / f32 / f64
//!    on Str / Strs (numbers appended as text after the existing strings);
//!  * truncate on Str / Strs / Date / Time / DateTime (first min(n, limit) items kept; a Str is one item; Empty untouched).
use dicom_core::value::{DicomDate, DicomDateTime, DicomTime, PrimitiveValue, C};

struct Tally { cases: u64, bad: u64 }
impl Tally {
    fn check(&mut self, ok: bool, what: impl FnOnce() -> String) {
        self.cases += 1;
        if !ok {
            self.bad += 1;
            if self.bad <= 8 { println!("WITNESS unit=C11.text {}", what()); }
        }
    }
}

fn strs(v: &[&str]) -> PrimitiveValue { PrimitiveValue::Strs(C::from_vec(v.iter().map(|s| s.to_string()).collect())) }

fn main() {
    let mut t = Tally { cases: 0, bad: 0 };
    let pads = ["", " ", "\0", "  ", " \0", "\0 "];
    // integers: (text, value)
    let ints: [(&str, i64); 8] = [("0", 0), ("7", 7), ("-12", -12), ("255", 255), ("256", 256), ("65535", 65535), ("-32769", -32769), ("4294967296", 4294967296)];
    for (txt, val) in ints {
        for l in pads { for r in pads {
            let s = format!("{}{}{}", l, txt, r);
            for v in [PrimitiveValue::Str(s.clone()), strs(&[&s]), strs(&[&s, "99"]), strs(&[&s, "x"])] {
                let r64 = v.to_int::<i64>().ok();
                t.check(r64 == Some(val), || format!("to_int::<i64>() of {:?} = {:?}, expected {}", v, r64, val));
                let r8 = v.to_int::<u8>().ok();
                let want8 = if (0..=255).contains(&val) { Some(val as u8) } else { None };
                t.check(r8 == want8, || format!("to_int::<u8>() of {:?} = {:?}, expected {:?}", v, r8, want8));
                let r16 = v.to_int::<i16>().ok();
                let want16 = if (-32768..=32767).contains(&val) { Some(val as i16) } else { None };
                t.check(r16 == want16, || format!("to_int::<i16>() of {:?} = {:?}, expected {:?}", v, r16, want16));
                let f = v.to_float64().ok();
                t.check(f == Some(val as f64), || format!("to_float64() of {:?} = {:?}, expected {}", v, f, val));
                let f = v.to_float32().ok();
                t.check(f == Some(val as f32), || format!("to_float32() of {:?} = {:?}, expected {}", v, f, val));
            }
            // multi: one result per stored string, in order
            let v = strs(&[&s, " 5", "6\0"]);
            let m = v.to_multi_int::<i64>().ok();
            t.check(m == Some(vec![val, 5, 6]), || format!("to_multi_int::<i64>() of {:?} = {:?}", v, m));
            let m = v.to_multi_float64().ok();
            t.check(m == Some(vec![val as f64, 5.0, 6.0]), || format!("to_multi_float64() of {:?} = {:?}", v, m));
            let m = v.to_multi_float32().ok();
            t.check(m == Some(vec![val as f32, 5.0, 6.0]), || format!("to_multi_float32() of {:?} = {:?}", v, m));
            let v = PrimitiveValue::Str(s.clone());
            let m = v.to_multi_int::<i64>().ok();
            t.check(m == Some(vec![val]), || format!("to_multi_int::<i64>() of {:?} = {:?}", v, m));
            let m = v.to_multi_float64().ok();
            t.check(m == Some(vec![val as f64]), || format!("to_multi_float64() of {:?} = {:?}", v, m));
        } }
    }
    // not numbers: every conversion fails; in a list the whole multi-valued conversion fails (nothing is skipped)
    for bad in ["", " ", "x", "1 2", "1.5.2", "--1", "12a"] {
        for v in [PrimitiveValue::Str(bad.to_string()), strs(&[bad]), strs(&[bad, "1"])] {
            t.check(v.to_int::<i32>().is_err(), || format!("to_int::<i32>() of {:?} succeeded: {:?}", v, v.to_int::<i32>().ok()));
            t.check(v.to_float64().is_err(), || format!("to_float64() of {:?} succeeded: {:?}", v, v.to_float64().ok()));
            t.check(v.to_multi_int::<i32>().is_err(), || format!("to_multi_int::<i32>() of {:?} succeeded: {:?}", v, v.to_multi_int::<i32>().ok()));
            t.check(v.to_multi_float64().is_err(), || format!("to_multi_float64() of {:?} succeeded: {:?}", v, v.to_multi_float64().ok()));
            t.check(v.to_multi_float32().is_err(), || format!("to_multi_float32() of {:?} succeeded: {:?}", v, v.to_multi_float32().ok()));
        }
        let v = strs(&["1", bad, "3"]);
        t.check(v.to_multi_int::<i32>().is_err(), || format!("to_multi_int::<i32>() of {:?} skipped or accepted a non-number: {:?}", v, v.to_multi_int::<i32>().ok()));
        t.check(v.to_multi_float64().is_err(), || format!("to_multi_float64() of {:?} skipped or accepted a non-number: {:?}", v, v.to_multi_float64().ok()));
        t.check(v.to_int::<i32>().ok() == Some(1), || format!("to_int::<i32>() of {:?} is not the first item", v));
    }
    // decimal text
    for (txt, val) in [("1.5", 1.5f64), ("-0.25", -0.25), ("1e3", 1000.0), (" 2.5\0", 2.5)] {
        for v in [PrimitiveValue::Str(txt.to_string()), strs(&[txt, "9"])] {
            t.check(v.to_float64().ok() == Some(val), || format!("to_float64() of {:?} = {:?}", v, v.to_float64().ok()));
            t.check(v.to_float32().ok() == Some(val as f32), || format!("to_float32() of {:?} = {:?}", v, v.to_float32().ok()));
        }
        let v = strs(&["7", txt]);
        t.check(v.to_multi_float64().ok() == Some(vec![7.0, val]), || format!("to_multi_float64() of {:?} = {:?}", v, v.to_multi_float64().ok()));
        t.check(v.to_multi_int::<i32>().is_err() || val.fract() == 0.0 && !txt.contains('e'), || format!("to_multi_int::<i32>() of {:?} accepted a decimal", v));
    }
    // empty value
    t.check(PrimitiveValue::Empty.to_multi_int::<i32>().ok() == Some(vec![]), || "to_multi_int of Empty is not an empty list".to_string());
    t.check(strs(&[]).to_multi_int::<i32>().ok() == Some(vec![]), || "to_multi_int of Strs([]) is not an empty list".to_string());
    t.check(strs(&[]).to_multi_float64().ok() == Some(vec![]), || "to_multi_float64 of Strs([]) is not an empty list".to_string());
    t.check(strs(&[]).to_int::<i32>().is_err(), || "to_int of Strs([]) succeeded".to_string());

    // extend_str
    let mut v = PrimitiveValue::Empty;
    let r = v.extend_str(["A", "B"]);
    t.check(r.is_ok() && v == strs(&["A", "B"]), || format!("extend_str([A, B]) on Empty gives {:?}", v));
    let mut v = PrimitiveValue::Str("X".to_string());
    let r = v.extend_str(["A", "B"]);
    t.check(r.is_ok() && v == strs(&["X", "A", "B"]), || format!("extend_str([A, B]) on Str(X) gives {:?}", v));
    let mut v = PrimitiveValue::Str("X".to_string());
    let r = v.extend_str(Vec::<String>::new());
    t.check(r.is_ok() && v.to_multi_str().as_ref() == ["X".to_string()], || format!("extend_str([]) on Str(X) gives {:?}", v));
    let mut v = strs(&["X", "Y"]);
    let r = v.extend_str(["A"]);
    t.check(r.is_ok() && v == strs(&["X", "Y", "A"]), || format!("extend_str([A]) on Strs[X, Y] gives {:?}", v));
    let mut v = strs(&[]);
    let r = v.extend_str(["A"]);
    t.check(r.is_ok() && v == strs(&["A"]), || format!("extend_str([A]) on Strs[] gives {:?}", v));
    for mut v in [PrimitiveValue::U16(C::from_vec(vec![1])), PrimitiveValue::F64(C::from_vec(vec![1.0])), PrimitiveValue::Date(C::from_vec(vec![DicomDate::from_y(1999).unwrap()]))] {
        let before = v.clone();
        let r = v.extend_str(["A"]);
        t.check(r.is_err() && v == before, || format!("extend_str on {:?}: result ok={} value {:?}", before, r.is_ok(), v));
    }
    // numbers appended to textual values
    macro_rules! ext_text {
        ($f:ident, $nums:expr, $texts:expr) => {
            let mut v = PrimitiveValue::Str("X".to_string());
            let r = v.$f($nums);
            let mut want = vec!["X"]; want.extend_from_slice(&$texts);
            t.check(r.is_ok() && v == strs(&want), || format!("{} on Str(X) gives {:?}, expected {:?}", stringify!($f), v, want));
            let mut v = strs(&["X", "Y"]);
            let r = v.$f($nums);
            let mut want = vec!["X", "Y"]; want.extend_from_slice(&$texts);
            t.check(r.is_ok() && v == strs(&want), || format!("{} on Strs[X, Y] gives {:?}, expected {:?}", stringify!($f), v, want));
        };
    }
    ext_text!(extend_u16, [1u16, 65535], ["1", "65535"]);
    ext_text!(extend_i16, [-5i16, 7], ["-5", "7"]);
    ext_text!(extend_i32, [-70000i32], ["-70000"]);
    ext_text!(extend_u32, [4000000000u32, 0], ["4000000000", "0"]);
    ext_text!(extend_f32, [1.5f32], ["1.5"]);
    ext_text!(extend_f64, [-0.25f64, 2.0], ["-0.25", "2"]);

    // truncate
    for limit in 0..=4usize {
        let mut v = strs(&["A", "B", "C"]);
        v.truncate(limit);
        let want: Vec<&str> = ["A", "B", "C"][..limit.min(3)].to_vec();
        t.check(v == strs(&want), || format!("truncate({}) on Strs[A, B, C] gives {:?}", limit, v));
        let mut v = PrimitiveValue::Str("A\\B".to_string());
        v.truncate(limit);
        // a single string is ONE item (multiplicity 1): limit 0 leaves no item, any other limit leaves it alone
        if limit == 0 { t.check(v.multiplicity() == 0, || format!("truncate(0) on a Str left {} item(s): {:?}", v.multiplicity(), v)); }
        else { t.check(v == PrimitiveValue::Str("A\\B".to_string()), || format!("truncate({}) on a Str changed it to {:?}", limit, v)); }
        let d = [DicomDate::from_y(1999).unwrap(), DicomDate::from_ym(2000, 2).unwrap(), DicomDate::from_ymd(2001, 3, 4).unwrap()];
        let mut v = PrimitiveValue::Date(C::from_vec(d.to_vec()));
        v.truncate(limit);
        t.check(v == PrimitiveValue::Date(C::from_vec(d[..limit.min(3)].to_vec())), || format!("truncate({}) on three dates gives {:?}", limit, v));
        let tm = [DicomTime::from_h(1).unwrap(), DicomTime::from_hm(2, 3).unwrap(), DicomTime::from_hms(4, 5, 6).unwrap()];
        let mut v = PrimitiveValue::Time(C::from_vec(tm.to_vec()));
        v.truncate(limit);
        t.check(v == PrimitiveValue::Time(C::from_vec(tm[..limit.min(3)].to_vec())), || format!("truncate({}) on three times gives {:?}", limit, v));
        let dt = [DicomDateTime::from_date(d[0]), DicomDateTime::from_date(d[1]), DicomDateTime::from_date_and_time(d[2], tm[2]).unwrap()];
        let mut v = PrimitiveValue::DateTime(C::from_vec(dt.to_vec()));
        v.truncate(limit);
        t.check(v == PrimitiveValue::DateTime(C::from_vec(dt[..limit.min(3)].to_vec())), || format!("truncate({}) on three date-times gives {:?}", limit, v));
    }
    println!("EXHAUSTIVE unit=C11.text cases={} mismatches={}", t.cases, t.bad);
}
