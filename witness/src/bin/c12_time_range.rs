//! Witness for unit C12.time_range: `earliest()`/`latest()` of every valid partial time must exist and
//! bracket the value; checked natively for boundary values including the leap second (second 60).
use dicom_core::value::{AsRange, DicomTime};
fn main() {
    let mut found = 0;
    let cands = [
        DicomTime::from_h(23), DicomTime::from_hm(23, 59), DicomTime::from_hms(23, 59, 59), DicomTime::from_hms(23, 59, 60),
        DicomTime::from_hms_milli(23, 59, 60, 999), DicomTime::from_hms_micro(0, 0, 60, 0), DicomTime::from_hms_micro(12, 30, 30, 123456),
    ];
    for c in cands {
        let t = c.expect("valid time");
        match (t.earliest(), t.latest()) {
            (Ok(a), Ok(b)) if a <= b => {}
            (a, b) => { found += 1; println!("WITNESS unit=C12.time_range value={:?} earliest={:?} latest={:?}", t, a.map_err(|e| e.to_string()), b.map_err(|e| e.to_string())); }
        }
    }
    if found == 0 { println!("no witness: every sampled valid time has earliest <= latest"); }
}
