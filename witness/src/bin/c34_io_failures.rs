//! Native stand-in for C34 on the compiled code (not a deductive result): a small object (text, numbers,
//! odd-length bytes, a nested sequence with an item, encapsulated pixel data with two fragments) is
//!  (1) written as a data set in Implicit VR LE, Explicit VR LE, Explicit VR BE and Deflated Explicit VR LE, and as a complete file
//!      (also a deflated one),
//!      to a sink that FAILS (I/O error), or ACCEPTS ZERO BYTES, once byte offset k is reached (from then on, or once only) — for every
//!      k from 0 to the length of the complete output: the operation must return an error, never Ok and
//!      never a panic; with a sink that accepts ONE BYTE PER CALL the output must be complete and identical;
//!  (2) read back (data set in the transfer syntaxes, and the complete files) from a source that reports an I/O error (of kind
//!      Other, ConnectionReset, TimedOut) once offset k is reached — for every k below the length: an error, never Ok with a
//!      partial object and never a panic; and from a source that ENDS at offset k (no more bytes, or an error of kind
//!      UnexpectedEof): an error at every k except where a top-level element, or an item header of top-level encapsulated pixel
//!      data, would start (found by an independent structural walk of the written stream) — the only places where the reader is
//!      documented to take the end of the source for the end of the data set;
//!  (3) a stream of three PDUs received through `read_pdu_from_wire` from a transport that fails at offset k, for every k and
//!      three segment sizes: the PDUs that lie completely before the failure are received, then an error;
//!  (4) PDUs of every type sent with `write_pdu` to a sink failing at offset k, for every k and every failure mode: an error.
use dicom_core::value::{DataSetSequence, PixelFragmentSequence, Value};
use dicom_core::{dicom_value, DataElement, Length, PrimitiveValue, Tag, VR};
use dicom_object::{FileMetaTableBuilder, InMemDicomObject};
use dicom_transfer_syntax_registry::entries;
use std::io::{Read, Write};

#[derive(Clone, Copy, PartialEq, Debug)]
enum Mode { Error, Zero, ErrorOnce, ZeroOnce, OneByte }

struct Sink { out: Vec<u8>, fail_at: usize, mode: Mode, failed: bool }
impl Write for Sink {
    fn write(&mut self, buf: &[u8]) -> std::io::Result<usize> {
        if buf.is_empty() { return Ok(0); }
        match self.mode {
            Mode::OneByte => { self.out.push(buf[0]); Ok(1) }
            _ => {
                let once = matches!(self.mode, Mode::ErrorOnce | Mode::ZeroOnce);
                let room = if once && self.failed { usize::MAX } else { self.fail_at.saturating_sub(self.out.len()) };
                if room == 0 {
                    self.failed = true;
                    return if matches!(self.mode, Mode::Error | Mode::ErrorOnce) { Err(std::io::Error::new(std::io::ErrorKind::Other, "sink failure")) } else { Ok(0) };
                }
                let n = room.min(buf.len());
                self.out.extend_from_slice(&buf[..n]);
                Ok(n)
            }
        }
    }
    fn flush(&mut self) -> std::io::Result<()> { Ok(()) }
}

#[derive(Clone, Copy, PartialEq, Debug)]
enum Fail { Other, ConnectionReset, TimedOut, EofError, Truncated }

struct Source<'a> { data: &'a [u8], pos: usize, fail_at: usize, fail: Fail }
impl Read for Source<'_> {
    fn read(&mut self, buf: &mut [u8]) -> std::io::Result<usize> {
        if self.pos >= self.fail_at {
            return match self.fail {
                Fail::Other => Err(std::io::Error::new(std::io::ErrorKind::Other, "source failure")),
                Fail::ConnectionReset => Err(std::io::Error::new(std::io::ErrorKind::ConnectionReset, "source failure")),
                Fail::TimedOut => Err(std::io::Error::new(std::io::ErrorKind::TimedOut, "source failure")),
                Fail::EofError => Err(std::io::Error::new(std::io::ErrorKind::UnexpectedEof, "source failure")),
                Fail::Truncated => Ok(0),
            };
        }
        let n = buf.len().min(self.fail_at - self.pos).min(self.data.len() - self.pos);
        buf[..n].copy_from_slice(&self.data[self.pos..self.pos + n]);
        self.pos += n;
        Ok(n)
    }
}

/// Offsets at which the TOP-LEVEL elements of an uncompressed data set start, and at which the item headers (and the sequence delimiter) of
/// top-level encapsulated pixel data start, found by an independent structural walk (element and item headers only). Only there may a
/// source that simply ENDS be taken for the end of the data set (read.rs documents both: "if `UnexpectedEof` was reached while trying to
/// read an element tag" / "while inside a PixelData Sequence, then we assume that the end of a DICOM object was reached gracefully");
/// `None` if the walk does not come out even.
fn top_level_starts(d: &[u8], implicit: bool, be: bool) -> Option<(Vec<usize>, Vec<usize>)> {
    let u16a = |p: usize| -> Option<u16> { let b = d.get(p..p + 2)?; Some(if be { u16::from_be_bytes([b[0], b[1]]) } else { u16::from_le_bytes([b[0], b[1]]) }) };
    let u32a = |p: usize| -> Option<u32> { let b = d.get(p..p + 4)?; Some(if be { u32::from_be_bytes([b[0], b[1], b[2], b[3]]) } else { u32::from_le_bytes([b[0], b[1], b[2], b[3]]) }) };
    // open containers: (kind, end) with kind 0 = sequence, 1 = item, 2 = encapsulated pixel data; end = usize::MAX when delimited
    let mut stack: Vec<(u8, usize)> = Vec::new();
    let (mut starts, mut item_starts, mut pos) = (Vec::new(), Vec::new(), 0usize);
    while pos < d.len() {
        while let Some(&(_, end)) = stack.last() { if end != usize::MAX && pos >= end { if pos != end { return None; } stack.pop(); } else { break; } }
        if pos >= d.len() { break; }
        let (g, e) = (u16a(pos)?, u16a(pos + 2)?);
        if g == 0xFFFE {
            let len = u32a(pos + 4)?;
            match e {
                0xE000 if stack.last().map(|x| x.0) == Some(2) => { if stack.len() == 1 { item_starts.push(pos); } pos += 8 + len as usize; }
                0xE000 => { stack.push((1, if len == u32::MAX { usize::MAX } else { pos + 8 + len as usize })); pos += 8; }
                0xE00D | 0xE0DD => { let (kind, end) = stack.pop()?; if end != usize::MAX { return None; } if kind == 2 && stack.is_empty() { item_starts.push(pos); } pos += 8; }
                _ => return None,
            }
            continue;
        }
        if stack.is_empty() { starts.push(pos); }
        let (is_sq, len, hdr) = if implicit {
            let len = u32a(pos + 4)?;
            (len == u32::MAX && (g, e) != (0x7FE0, 0x0010) || (g, e) == (0x0008, 0x1115), len, 8)
        } else {
            let vr = d.get(pos + 4..pos + 6)?;
            let short = [&b"AE"[..], b"AS", b"AT", b"CS", b"DA", b"DS", b"DT", b"FL", b"FD", b"IS", b"LO", b"LT", b"PN", b"SH", b"SL", b"SS", b"ST", b"TM", b"UI", b"UL", b"US"].contains(&vr);
            if short { (false, u16a(pos + 6)? as u32, 8) } else { (vr == b"SQ", u32a(pos + 8)?, 12) }
        };
        pos += hdr;
        if is_sq { stack.push((0, if len == u32::MAX { usize::MAX } else { pos + len as usize })); }
        else if len == u32::MAX { stack.push((2, usize::MAX)); }
        else { pos += len as usize; }
    }
    while let Some(&(_, end)) = stack.last() { if end != usize::MAX && pos == end { stack.pop(); } else { break; } }
    if pos == d.len() && stack.is_empty() { Some((starts, item_starts)) } else { None }
}

struct Tally { cases: u64, bad: u64 }
impl Tally {
    fn fail(&mut self, what: String) {
        self.bad += 1;
        if self.bad <= 8 || std::env::var("C34_ALL").is_ok() { println!("WITNESS unit=C34.io_failures {}", what); }
    }
}

fn object(with_pixels: bool) -> InMemDicomObject {
    let item = InMemDicomObject::from_element_iter([
        DataElement::new(Tag(0x0008, 0x1150), VR::UI, PrimitiveValue::from("1.2.840.10008.5.1.4.1.1.7")),
        DataElement::new(Tag(0x0008, 0x1155), VR::UI, PrimitiveValue::from("1.2.3.4.5")),
    ]);
    let mut elems = vec![
        DataElement::new(Tag(0x0008, 0x0016), VR::UI, PrimitiveValue::from("1.2.840.10008.5.1.4.1.1.7")),
        DataElement::new(Tag(0x0008, 0x0018), VR::UI, PrimitiveValue::from("2.25.123")),
        DataElement::new(Tag(0x0008, 0x0020), VR::DA, PrimitiveValue::from("19991231")),
        DataElement::new(Tag(0x0008, 0x1115), VR::SQ, Value::from(DataSetSequence::new(vec![item], Length::UNDEFINED))),
        DataElement::new(Tag(0x0010, 0x0010), VR::PN, PrimitiveValue::from("Doe^John")),
        DataElement::new(Tag(0x0028, 0x0010), VR::US, dicom_value!(U16, [2])),
        DataElement::new(Tag(0x0028, 0x0011), VR::US, dicom_value!(U16, [3])),
        DataElement::new(Tag(0x0042, 0x0011), VR::OB, dicom_value!(U8, [1, 2, 3])),
    ];
    if with_pixels {
        elems.push(DataElement::new(Tag(0x7FE0, 0x0010), VR::OB, Value::from(PixelFragmentSequence::new(vec![0u32], vec![vec![1u8, 2, 3, 4], vec![5u8, 6]]))));
    } else {
        elems.push(DataElement::new(Tag(0x7FE0, 0x0010), VR::OW, dicom_value!(U16, [1, 2, 3, 4, 5, 6])));
    }
    // the last elements have empty values in the long header form: the header is then the last thing written
    elems.push(DataElement::new(Tag(0x7FE1, 0x0010), VR::LO, PrimitiveValue::from("CREATOR")));
    elems.push(DataElement::new(Tag(0x7FE1, 0x1001), VR::UT, PrimitiveValue::Empty));
    elems.push(DataElement::new(Tag(0x7FE1, 0x1002), VR::OW, PrimitiveValue::Empty));
    InMemDicomObject::from_element_iter(elems)
}

fn describe(mode: Mode) -> &'static str {
    match mode {
        Mode::Error => "failed (and kept failing)", Mode::Zero => "accepted zero bytes (from then on)",
        Mode::ErrorOnce => "failed once (and worked again afterwards)", Mode::ZeroOnce => "accepted zero bytes once (and worked again afterwards)",
        Mode::OneByte => "accepted one byte per call",
    }
}

fn sweep_write(t: &mut Tally, what: &str, write: &dyn Fn(&mut Sink) -> Result<(), String>) -> Option<Vec<u8>> {
    let mut full = Sink { out: Vec::new(), fail_at: usize::MAX, mode: Mode::Error, failed: false };
    t.cases += 1;
    if let Err(e) = write(&mut full) { t.fail(format!("{}: writing to a working sink failed: {}", what, e)); return None; }
    let reference = full.out;
    t.cases += 1;
    let mut slow = Sink { out: Vec::new(), fail_at: usize::MAX, mode: Mode::OneByte, failed: false };
    match write(&mut slow) {
        Ok(()) if slow.out == reference => {}
        Ok(()) => t.fail(format!("{}: a sink accepting one byte per call received {} bytes, a normal sink {}", what, slow.out.len(), reference.len())),
        Err(e) => t.fail(format!("{}: a sink accepting one byte per call made the writer fail: {}", what, e)),
    }
    for mode in [Mode::Error, Mode::Zero, Mode::ErrorOnce, Mode::ZeroOnce] {
        for k in 0..reference.len() {
            t.cases += 1;
            let mut s = Sink { out: Vec::new(), fail_at: k, mode, failed: false };
            let r = std::panic::catch_unwind(std::panic::AssertUnwindSafe(|| write(&mut s)));
            match r {
                Ok(Err(_)) => {}
                Ok(Ok(())) => t.fail(format!("{}: the sink {} at byte offset {} of {}, yet the operation reported success ({} bytes written)", what,
                    describe(mode), k, reference.len(), s.out.len())),
                Err(_) => t.fail(format!("{}: panic when the sink {} at byte offset {}", what, describe(mode), k)),
            }
        }
    }
    Some(reference)
}

/// `layout`: (offset at which the data set starts, implicit VR, big endian) for uncompressed streams; None where the structure cannot be walked
fn sweep_read(t: &mut Tally, what: &str, data: &[u8], layout: Option<(usize, bool, bool)>, read: &dyn Fn(Source) -> Result<(), String>) {
    t.cases += 1;
    if let Err(e) = read(Source { data, pos: 0, fail_at: usize::MAX, fail: Fail::Other }) { return t.fail(format!("{}: reading the complete stream failed: {}", what, e)); }
    // a source that ENDS (Ok(0), or an error of kind UnexpectedEof) may be taken for the end of the data set only where a top-level element
    // would start (the reader asks for the 4 bytes of the next tag there) or where an item header of top-level encapsulated pixel data
    // would start (files without the closing delimiter exist; the reader documents this leniency); anywhere else — inside an element
    // header after the tag, inside a value or a fragment, inside a sequence, in the preamble or the file meta group — the data set is
    // incomplete and reading must fail
    let may_end: Option<Vec<bool>> = layout.and_then(|(start, implicit, be)| {
        let (starts, item_starts) = top_level_starts(&data[start..], implicit, be)?;
        let mut ok = vec![false; data.len()];
        for s in starts { for k in s..(s + 4).min(data.len() - start) { ok[start + k] = true; } }
        for s in item_starts { for k in s..(s + 8).min(data.len() - start) { ok[start + k] = true; } }
        Some(ok)
    });
    if layout.is_some() && may_end.is_none() { println!("NOTE unit=C34.io_failures {}: the structural walk of the written stream did not come out even; ending sources not swept", what); }
    for fail in [Fail::Other, Fail::ConnectionReset, Fail::TimedOut, Fail::EofError, Fail::Truncated] {
        let ending = matches!(fail, Fail::EofError | Fail::Truncated);
        if ending && may_end.is_none() { continue; }
        for k in 0..data.len() {
            if ending && may_end.as_ref().map(|m| m[k]).unwrap_or(false) { continue; }
            t.cases += 1;
            let r = std::panic::catch_unwind(std::panic::AssertUnwindSafe(|| read(Source { data, pos: 0, fail_at: k, fail })));
            let how = match fail { Fail::Truncated => "ended (no more bytes)".to_string(), f => format!("failed with an error of kind {:?}", f) };
            match r {
                Ok(Err(_)) => {}
                Ok(Ok(())) => t.fail(format!("{}: the source {} at byte offset {} of {}, yet reading reported success", what, how, k, data.len())),
                Err(_) => t.fail(format!("{}: panic when the source {} at byte offset {}", what, how, k)),
            }
        }
    }
}

fn main() {
    let mut t = Tally { cases: 0, bad: 0 };
    let syntaxes = [
        (entries::IMPLICIT_VR_LITTLE_ENDIAN.erased(), "Implicit VR LE"),
        (entries::EXPLICIT_VR_LITTLE_ENDIAN.erased(), "Explicit VR LE"),
        (entries::EXPLICIT_VR_BIG_ENDIAN.erased(), "Explicit VR BE"),
        (entries::DEFLATED_EXPLICIT_VR_LITTLE_ENDIAN.erased(), "Deflated Explicit VR LE"),
    ];
    for with_pixels in [false, true] {
        let obj = object(with_pixels);
        for (ts, name) in &syntaxes {
            let what = format!("data set ({}) in {}", if with_pixels { "encapsulated pixel data" } else { "native pixel data" }, name);
            let bytes = sweep_write(&mut t, &format!("writing a {}", what), &|s: &mut Sink| obj.write_dataset_with_ts(s, ts).map_err(|e| e.to_string()));
            // the same through a buffering writer handed over BY VALUE: the call is the last chance to flush it and see the failure
            let _ = sweep_write(&mut t, &format!("writing (through a BufWriter given by value) a {}", what), &|s: &mut Sink| obj.write_dataset_with_ts(std::io::BufWriter::new(s), ts).map_err(|e| e.to_string()));
            let _ = sweep_write(&mut t, &format!("writing (write_dataset_with_ts_options, through a BufWriter given by value) a {}", what), &|s: &mut Sink| obj.write_dataset_with_ts_options(std::io::BufWriter::new(s), ts, Default::default()).map_err(|e| e.to_string()));
            if let Some(bytes) = bytes {
                let layout = match *name { "Implicit VR LE" => Some((0, true, false)), "Explicit VR LE" => Some((0, false, false)), "Explicit VR BE" => Some((0, false, true)), _ => None };
                sweep_read(&mut t, &format!("reading a {}", what), &bytes, layout, &|src: Source| InMemDicomObject::read_dataset_with_ts(src, ts).map(|_| ()).map_err(|e| e.to_string()));
            }
        }
        let file = obj.clone().with_meta(FileMetaTableBuilder::new().transfer_syntax(if with_pixels { "1.2.840.10008.1.2.4.50" } else { "1.2.840.10008.1.2.1" })).expect("meta");
        let what = format!("complete file ({})", if with_pixels { "encapsulated pixel data" } else { "native pixel data" });
        let bytes = sweep_write(&mut t, &format!("writing a {}", what), &|s: &mut Sink| file.write_all(s).map_err(|e| e.to_string()));
        if let Some(bytes) = bytes {
            // preamble, magic code, then the group length element (12 bytes) whose value counts the rest of the file meta group
            let ds_start = 132 + 12 + u32::from_le_bytes([bytes[140], bytes[141], bytes[142], bytes[143]]) as usize;
            sweep_read(&mut t, &format!("reading a {}", what), &bytes, Some((ds_start, false, false)), &|src: Source| dicom_object::from_reader(src).map(|_| ()).map_err(|e| e.to_string()));
        }
    }
    // the deflated transfer syntax as a complete file
    {
        let obj = object(false);
        let file = obj.with_meta(FileMetaTableBuilder::new().transfer_syntax("1.2.840.10008.1.2.1.99")).expect("meta");
        let what = "complete file (Deflated Explicit VR LE)";
        let bytes = sweep_write(&mut t, &format!("writing a {}", what), &|s: &mut Sink| file.write_all(s).map_err(|e| e.to_string()));
        if let Some(bytes) = bytes {
            sweep_read(&mut t, &format!("reading a {}", what), &bytes, None, &|src: Source| dicom_object::from_reader(src).map(|_| ()).map_err(|e| e.to_string()));
        }
    }
    // (3) receiving PDUs: a stream of three PDUs read through read_pdu_from_wire from a source that reports an I/O error at
    // offset k (for every k) in segments of 1 / 7 / all bytes: the PDUs that lie completely before k are received, the next
    // receive is an error — never a wrong PDU, never a panic
    {
        use dicom_ul::association::read_pdu_from_wire;
        use dicom_ul::pdu::{write_pdu, AbortRQSource, PDataValue, PDataValueType, Pdu, MAXIMUM_PDU_SIZE};
        struct Seg<'a> { data: &'a [u8], pos: usize, fail_at: usize, step: usize }
        impl Read for Seg<'_> {
            fn read(&mut self, buf: &mut [u8]) -> std::io::Result<usize> {
                if self.pos >= self.fail_at { return Err(std::io::Error::new(std::io::ErrorKind::ConnectionReset, "transport failure")); }
                let n = buf.len().min(self.step).min(self.fail_at - self.pos).min(self.data.len() - self.pos);
                buf[..n].copy_from_slice(&self.data[self.pos..self.pos + n]);
                self.pos += n;
                Ok(n)
            }
        }
        let pdus = vec![
            Pdu::ReleaseRQ,
            Pdu::PData { data: vec![PDataValue { presentation_context_id: 1, value_type: PDataValueType::Data, is_last: true, data: vec![1, 2, 3, 4, 5] }] },
            Pdu::AbortRQ { source: AbortRQSource::ServiceUser },
        ];
        let mut stream = Vec::new();
        let mut ends = Vec::new();
        for p in &pdus { write_pdu(&mut stream, p).expect("write"); ends.push(stream.len()); }
        for step in [1usize, 7, 1 << 20] {
            for k in 0..stream.len() {
                t.cases += 1;
                let mut src = Seg { data: &stream, pos: 0, fail_at: k, step };
                let mut buffer = bytes::BytesMut::new();
                let complete = ends.iter().filter(|e| **e <= k).count();
                let r = std::panic::catch_unwind(std::panic::AssertUnwindSafe(|| {
                    let mut got = Vec::new();
                    for _ in 0..pdus.len() + 1 { match read_pdu_from_wire(&mut src, &mut buffer, MAXIMUM_PDU_SIZE, true) { Ok(p) => got.push(p), Err(_) => break } }
                    got
                }));
                match r {
                    Ok(got) => if got.len() > complete || got[..] != pdus[..got.len()] || got.len() < complete {
                        t.fail(format!("receiving PDUs, transport failing at byte offset {} of {} (segments of {} bytes): {} PDUs received ({:?}), {} lie completely before the failure", k, stream.len(), step, got.len(), got.iter().map(|p| p.short_description().to_string()).collect::<Vec<_>>(), complete));
                    },
                    Err(_) => t.fail(format!("receiving PDUs: panic when the transport failed at byte offset {} (segments of {} bytes)", k, step)),
                }
            }
        }
    }
    // (4) sending PDUs: write_pdu of PDUs of every type to a sink that fails / accepts zero bytes at offset k, for every k
    {
        use dicom_ul::pdu::*;
        let pdus: Vec<(&str, Pdu)> = vec![
            ("A-ASSOCIATE-RQ", Pdu::AssociationRQ(AssociationRQ { protocol_version: 1, calling_ae_title: "CALLING".to_string(), called_ae_title: "CALLED".to_string(),
                application_context_name: "1.2.840.10008.3.1.1.1".to_string(),
                presentation_contexts: vec![PresentationContextProposed { id: 1, abstract_syntax: "1.2.840.10008.1.1".to_string(), transfer_syntaxes: vec!["1.2.840.10008.1.2".to_string(), "1.2.840.10008.1.2.1".to_string()] }],
                user_variables: vec![UserVariableItem::MaxLength(16384), UserVariableItem::ImplementationClassUID("2.25.9".to_string()), UserVariableItem::ImplementationVersionName("V".to_string())] })),
            ("A-ASSOCIATE-AC", Pdu::AssociationAC(AssociationAC { protocol_version: 1, calling_ae_title: "CALLING".to_string(), called_ae_title: "CALLED".to_string(),
                application_context_name: "1.2.840.10008.3.1.1.1".to_string(),
                presentation_contexts: vec![PresentationContextResult { id: 1, reason: PresentationContextResultReason::Acceptance, transfer_syntax: "1.2.840.10008.1.2.1".to_string() }],
                user_variables: vec![UserVariableItem::MaxLength(16384)] })),
            ("A-ASSOCIATE-RJ", Pdu::AssociationRJ(AssociationRJ { result: AssociationRJResult::Permanent, source: AssociationRJSource::ServiceUser(AssociationRJServiceUserReason::NoReasonGiven) })),
            ("P-DATA-TF", Pdu::PData { data: vec![PDataValue { presentation_context_id: 1, value_type: PDataValueType::Command, is_last: false, data: vec![1, 2, 3] },
                                                PDataValue { presentation_context_id: 1, value_type: PDataValueType::Data, is_last: true, data: vec![4; 40] }] }),
            ("A-RELEASE-RQ", Pdu::ReleaseRQ), ("A-RELEASE-RP", Pdu::ReleaseRP), ("A-ABORT", Pdu::AbortRQ { source: AbortRQSource::ServiceUser }),
            ("unknown PDU", Pdu::Unknown { pdu_type: 0x55, data: vec![9; 11] }),
        ];
        for (name, pdu) in &pdus {
            sweep_write(&mut t, &format!("sending a {} PDU (write_pdu)", name), &|s: &mut Sink| write_pdu(s, pdu).map_err(|e| e.to_string()));
        }
    }
    println!("EXHAUSTIVE unit=C34.io_failures cases={} mismatches={}", t.cases, t.bad);
}
