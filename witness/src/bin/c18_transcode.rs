//! Native stand-in for the TRANSCODING clause of C18 on the compiled code (not a deductive result): native images
//! (8 bit x 1 / 3 samples, 16 bit x 1 sample; 1-3 frames; frame sizes odd and even) are transcoded
//! (`dicom_pixeldata::Transcode`) into every registered encapsulated transfer syntax that has an encoder in this
//! build; afterwards: the pixel data is a fragment sequence with one basic offset table entry per frame, entry 0 is
//! 0 and entry i is the byte offset of frame i's first item from the first item after the table — both in memory
//! (8 bytes of item header + even-padded length of every earlier fragment) and as found by an independent walk of
//! the WRITTEN data set, where every fragment item has even length; Number of Frames matches; and the Encapsulated
//! Pixel Data Value Total Length attribute equals the total length of all fragments (every fragment already of even length
//! in the data set); transcoding back to native leaves no such attribute behind and (lossless targets) gives the original pixels.
//! Odd-sized native values are used both bare and with the padding byte they carry after being read from a file.
use dicom_core::value::Value;
use dicom_core::{dicom_value, DataElement, PrimitiveValue, Tag, VR};
use dicom_encoding::transfer_syntax::{Codec, TransferSyntaxIndex};
use dicom_object::{FileMetaTableBuilder, InMemDicomObject};
use dicom_pixeldata::Transcode;
use dicom_transfer_syntax_registry::TransferSyntaxRegistry;

struct Tally { cases: u64, bad: u64 }
impl Tally {
    fn fail(&mut self, what: String) { self.bad += 1; if self.bad <= 8 { println!("WITNESS unit=C18.transcode {}", what); } }
}

/// `padded`: the native value carries the padding byte it has after being read from a file (odd totals only)
fn image(bits: u16, spp: u16, rows: u16, cols: u16, frames: u32, padded: bool) -> InMemDicomObject {
    let n = rows as usize * cols as usize * spp as usize * (bits as usize / 8) * frames as usize;
    let mut bytes: Vec<u8> = (0..n).map(|i| (i * 7 + 3) as u8).collect();
    if padded && n % 2 == 1 { bytes.push(0); }
    let px = if bits == 8 { DataElement::new(Tag(0x7FE0, 0x0010), VR::OB, PrimitiveValue::from(bytes)) }
             else { DataElement::new(Tag(0x7FE0, 0x0010), VR::OW, PrimitiveValue::U16(bytes.chunks(2).map(|c| u16::from_le_bytes([c[0], c[1]])).collect())) };
    InMemDicomObject::from_element_iter([
        DataElement::new(Tag(0x0008, 0x0016), VR::UI, PrimitiveValue::from("1.2.840.10008.5.1.4.1.1.7")),
        DataElement::new(Tag(0x0008, 0x0018), VR::UI, PrimitiveValue::from("2.25.6")),
        DataElement::new(Tag(0x0028, 0x0002), VR::US, dicom_value!(U16, [spp])),
        DataElement::new(Tag(0x0028, 0x0004), VR::CS, PrimitiveValue::from(if spp == 1 { "MONOCHROME2" } else { "RGB" })),
        DataElement::new(Tag(0x0028, 0x0006), VR::US, dicom_value!(U16, [0])),
        DataElement::new(Tag(0x0028, 0x0008), VR::IS, PrimitiveValue::from(frames.to_string())),
        DataElement::new(Tag(0x0028, 0x0010), VR::US, dicom_value!(U16, [rows])),
        DataElement::new(Tag(0x0028, 0x0011), VR::US, dicom_value!(U16, [cols])),
        DataElement::new(Tag(0x0028, 0x0100), VR::US, dicom_value!(U16, [bits])),
        DataElement::new(Tag(0x0028, 0x0101), VR::US, dicom_value!(U16, [bits])),
        DataElement::new(Tag(0x0028, 0x0102), VR::US, dicom_value!(U16, [bits - 1])),
        DataElement::new(Tag(0x0028, 0x0103), VR::US, dicom_value!(U16, [0])),
        px,
    ])
}

fn main() {
    let mut t = Tally { cases: 0, bad: 0 };
    let mut targets: Vec<(String, String)> = Vec::new();
    for ts in TransferSyntaxRegistry.iter() {
        if matches!(ts.codec(), Codec::EncapsulatedPixelData(_, Some(_))) { targets.push((ts.uid().to_string(), ts.name().to_string())); }
    }
    targets.sort();
    if targets.is_empty() { println!("WITNESS unit=C18.transcode no encapsulated transfer syntax with an encoder is registered in this build"); }
    for (uid, name) in &targets {
        let ts = TransferSyntaxRegistry.get(uid).unwrap();
        for (bits, spp, rows, cols) in [(8u16, 1u16, 3u16, 3u16), (8, 1, 2, 4), (8, 3, 3, 3), (8, 3, 2, 2), (16, 1, 3, 3), (16, 1, 1, 1), (8, 1, 1, 1)] {
            for frames in 1..=3u32 { for padded in [false, true] {
                let n = rows as usize * cols as usize * spp as usize * (bits as usize / 8) * frames as usize;
                if padded && n % 2 == 0 { continue; }
                t.cases += 1;
                let label = format!("{} ({}): {} bit x {} samples, {}x{}, {} frames{}", name, uid, bits, spp, rows, cols, frames, if padded { ", native value with its padding byte" } else { "" });
                let mut file = image(bits, spp, rows, cols, frames, padded).with_meta(FileMetaTableBuilder::new().transfer_syntax("1.2.840.10008.1.2.1")).expect("meta");
                match std::panic::catch_unwind(std::panic::AssertUnwindSafe(|| file.transcode(ts))) {
                    Ok(Ok(())) => {}
                    Ok(Err(_)) => continue, // this encoder does not take this image (e.g. 16-bit for baseline JPEG): nothing was encapsulated
                    Err(_) => { t.fail(format!("{}: transcoding panicked", label)); continue; }
                }
                let seq = match file.element(Tag(0x7FE0, 0x0010)).map(|e| e.value()) { Ok(Value::PixelSequence(s)) => s.clone(), other => { t.fail(format!("{}: pixel data after transcoding is not a fragment sequence: {:?}", label, other.map(|v| v.multiplicity()))); continue; } };
                let (table, frags) = (seq.offset_table().to_vec(), seq.fragments().to_vec());
                if frags.len() != frames as usize { t.fail(format!("{}: {} fragments for {} frames (one fragment per frame expected from the frame-wise encoders)", label, frags.len(), frames)); continue; }
                let mut want = Vec::new();
                let mut off = 0u32;
                for f in &frags { want.push(off); off += 8 + f.len() as u32 + (f.len() as u32 % 2); }
                if table != want { t.fail(format!("{}: basic offset table {:?}, expected {:?} (fragment lengths {:?})", label, table, want, frags.iter().map(|f| f.len()).collect::<Vec<_>>())); continue; }
                let nf = file.element(Tag(0x0028, 0x0008)).ok().and_then(|e| e.to_int::<u32>().ok());
                if nf != Some(frames) { t.fail(format!("{}: Number of Frames {:?} after transcoding", label, nf)); continue; }
                // every fragment has even length already in the data set (the fragment held is the fragment written)
                if let Some(f) = frags.iter().find(|f| f.len() % 2 == 1) { t.fail(format!("{}: a fragment of odd length {} in the transcoded data set (fragment lengths {:?})", label, f.len(), frags.iter().map(|f| f.len()).collect::<Vec<_>>())); continue; }
                let total_mem: u64 = frags.iter().map(|f| f.len() as u64).sum();
                let total_wire: u64 = frags.iter().map(|f| (f.len() + f.len() % 2) as u64).sum();
                if let Ok(e) = file.element(Tag(0x7FE0, 0x0003)) {
                    let v = e.to_int::<u64>().ok();
                    if v != Some(total_mem) || v != Some(total_wire) { t.fail(format!("{}: Encapsulated Pixel Data Value Total Length {:?}, the fragments total {} bytes ({} with padding)", label, v, total_mem, total_wire)); continue; }
                }
                if file.meta().transfer_syntax.trim_end_matches('\0') != uid { t.fail(format!("{}: file meta transfer syntax {:?} after transcoding", label, file.meta().transfer_syntax)); continue; }
                // independent walk of the written data set (Explicit VR LE layout of encapsulated syntaxes)
                let mut bytes = Vec::new();
                if let Err(e) = file.write_dataset(&mut bytes) { t.fail(format!("{}: writing the transcoded data set failed: {}", label, e)); continue; }
                let pos = bytes.windows(12).position(|w| w == [0xE0, 0x7F, 0x10, 0x00, b'O', b'B', 0, 0, 0xFF, 0xFF, 0xFF, 0xFF]);
                let mut i = match pos { Some(p) => p + 12, None => { t.fail(format!("{}: no encapsulated pixel data element in the written data set", label)); continue; } };
                let item = |i: usize| -> Option<(u16, u16, usize)> { let b = bytes.get(i..i + 8)?; Some((u16::from_le_bytes([b[0], b[1]]), u16::from_le_bytes([b[2], b[3]]), u32::from_le_bytes([b[4], b[5], b[6], b[7]]) as usize)) };
                let (g, e, tl) = item(i).unwrap_or((0, 0, 0));
                if (g, e) != (0xFFFE, 0xE000) || tl != 4 * frames as usize { t.fail(format!("{}: written offset table item has length {} for {} frames", label, tl, frames)); continue; }
                let wire_table: Vec<u32> = bytes[i + 8..i + 8 + tl].chunks(4).map(|c| u32::from_le_bytes([c[0], c[1], c[2], c[3]])).collect();
                i += 8 + tl;
                let first = i;
                let mut starts = Vec::new();
                let mut ok = true;
                loop {
                    match item(i) {
                        Some((0xFFFE, 0xE000, l)) => { if l % 2 != 0 { ok = false; t.fail(format!("{}: written fragment of odd length {}", label, l)); break; } starts.push((i - first) as u32); i += 8 + l; }
                        Some((0xFFFE, 0xE0DD, 0)) => break,
                        other => { ok = false; t.fail(format!("{}: unexpected item {:?} among the written fragments", label, other)); break; }
                    }
                }
                if ok && wire_table != starts { t.fail(format!("{}: written offset table {:?}, the frames' first items are at {:?}", label, wire_table, starts)); }
                // back to native: no attribute describing fragments is left behind, and (lossless targets) the pixels are the original ones
                let original: Vec<u8> = (0..n).map(|i| (i * 7 + 3) as u8).collect();
                match std::panic::catch_unwind(std::panic::AssertUnwindSafe(|| file.transcode(&dicom_transfer_syntax_registry::entries::EXPLICIT_VR_LITTLE_ENDIAN.erased()))) {
                    Ok(Ok(())) => {
                        if file.element(Tag(0x7FE0, 0x0003)).is_ok() { t.fail(format!("{}: after transcoding back to native, Encapsulated Pixel Data Value Total Length is still there although there are no fragments", label)); }
                        if uid != "1.2.840.10008.1.2.4.50" {
                            let back = file.element(Tag(0x7FE0, 0x0010)).ok().and_then(|e| e.to_bytes().ok().map(|b| b.to_vec()));
                            if back.as_ref().map(|b| b.len() < n || b[..n] != original[..]).unwrap_or(true) { t.fail(format!("{}: after transcoding back to native the pixel data is {:?}, the original was {:?}", label, back.map(|b| b.iter().take(24).cloned().collect::<Vec<u8>>()), &original[..n.min(24)])); }
                        }
                    }
                    Ok(Err(e)) => t.fail(format!("{}: transcoding back to native failed: {}", label, e)),
                    Err(_) => t.fail(format!("{}: transcoding back to native panicked", label)),
                }
            } }
        }
    }
    println!("EXHAUSTIVE unit=C18.transcode cases={} targets={} mismatches={}", t.cases, targets.len(), t.bad);
}
