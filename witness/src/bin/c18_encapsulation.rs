//! Native cross-check for C18 on the compiled code (stand-in; not a deductive result):
//!  (1) `Fragments::new` + `From<Vec<Fragments>>` (the encapsulation helpers): 1-6 frames of 0-9 bytes,
//!      fragment sizes 0 (one fragment per frame), and for single frames 1-5: every fragment has even
//!      length, the fragments are the frame data followed by zero padding of less than one fragment,
//!      the basic offset table has one entry per frame = byte offset of the frame's first item (8 bytes
//!      of item header + fragment length for every earlier fragment), first entry 0;
//!  (2) the default `PixelDataObject::frame_pixel_data` on objects built from those sequences, and on
//!      multi-fragment frames with an explicit offset table (1-4 frames x 1-3 fragments per frame): the
//!      data returned for frame i is exactly the concatenation of that frame's fragments.
use dicom_core::value::fragments::Fragments;
use dicom_core::value::{InMemFragment, PixelFragmentSequence};
use dicom_encoding::adapters::{PixelDataObject, RawPixelData};
use std::borrow::Cow;

struct Obj { frames: u32, fragments: Vec<Vec<u8>>, table: Vec<u32> }
impl PixelDataObject for Obj {
    fn transfer_syntax_uid(&self) -> &str { "1.2.840.10008.1.2.4.50" }
    fn rows(&self) -> Option<u16> { Some(1) }
    fn cols(&self) -> Option<u16> { Some(1) }
    fn samples_per_pixel(&self) -> Option<u16> { Some(1) }
    fn bits_allocated(&self) -> Option<u16> { Some(8) }
    fn bits_stored(&self) -> Option<u16> { Some(8) }
    fn photometric_interpretation(&self) -> Option<&str> { Some("MONOCHROME2") }
    fn number_of_frames(&self) -> Option<u32> { Some(self.frames) }
    fn number_of_fragments(&self) -> Option<u32> { Some(self.fragments.len() as u32) }
    fn fragment(&self, i: usize) -> Option<Cow<'_, [u8]>> { self.fragments.get(i).map(|f| Cow::Borrowed(&f[..])) }
    fn offset_table(&self) -> Option<Cow<'_, [u32]>> { Some(Cow::Borrowed(&self.table[..])) }
    fn raw_pixel_data(&self) -> Option<RawPixelData> { None }
}

struct Tally { cases: u64, bad: u64 }
impl Tally {
    fn fail(&mut self, what: String) {
        self.bad += 1;
        if self.bad <= 8 { println!("WITNESS unit=C18.encapsulation {}", what); }
    }
}

fn main() {
    let mut t = Tally { cases: 0, bad: 0 };
    let mut counter = 0u8;
    let mut fresh = |n: usize| -> Vec<u8> { (0..n).map(|_| { counter = counter.wrapping_add(1); if counter == 0 { counter = 1; } counter }).collect() };
    // (1) helpers: frame length patterns
    let patterns: Vec<Vec<usize>> = {
        let mut p = Vec::new();
        for n in 1..=6usize {
            p.push((0..n).map(|i| 1 + (i * 3) % 9).collect());
            p.push((0..n).map(|i| 2 * (i % 4)).collect());
            p.push(vec![5; n]);
            p.push(vec![4; n]);
        }
        for a in 0..=9usize { p.push(vec![a]); }
        p
    };
    for lens in &patterns {
        let sizes: Vec<u32> = if lens.len() == 1 { vec![0, 1, 2, 3, 4, 5] } else { vec![0] };
        for &fs in &sizes {
            t.cases += 1;
            let frames: Vec<Vec<u8>> = lens.iter().map(|n| fresh(*n)).collect();
            let label = format!("frames of {:?} bytes, fragment size {}", lens, fs);
            let r = std::panic::catch_unwind(|| {
                let frs: Vec<Fragments> = frames.iter().map(|f| Fragments::new(f.clone(), fs)).collect();
                let seq: PixelFragmentSequence<InMemFragment> = frs.into();
                (seq.offset_table().to_vec(), seq.fragments().to_vec())
            });
            let (table, frags) = match r { Ok(x) => x, Err(_) => { t.fail(format!("{}: panicked", label)); continue; } };
            if frags.iter().any(|f| f.len() % 2 != 0) { t.fail(format!("{}: a fragment has odd length: {:?}", label, frags.iter().map(|f| f.len()).collect::<Vec<_>>())); continue; }
            // expected: per frame, effective size = fs or max(len,1), rounded up to even; ceil(len / size) fragments
            let mut want_frags: Vec<Vec<u8>> = Vec::new();
            let mut want_table: Vec<u32> = Vec::new();
            let mut offset = 0u32;
            for f in &frames {
                want_table.push(offset);
                let mut size = if fs == 0 { f.len().max(1) } else { fs as usize };
                if size % 2 == 1 { size += 1; }
                let n = (f.len() + size - 1) / size;
                let mut padded = f.clone();
                padded.resize(n * size, 0);
                for c in padded.chunks(size) { want_frags.push(c.to_vec()); offset += 8 + c.len() as u32; }
            }
            if frags != want_frags { t.fail(format!("{}: fragments {:?}, expected {:?}", label, frags, want_frags)); continue; }
            if table != want_table { t.fail(format!("{}: basic offset table {:?}, expected {:?} (fragment lengths {:?})", label, table, want_table, frags.iter().map(|f| f.len()).collect::<Vec<_>>())); continue; }
            // (2a) frame retrieval, one fragment per frame
            if fs == 0 && frags.len() == frames.len() {
                let obj = Obj { frames: frames.len() as u32, fragments: frags.clone(), table: table.clone() };
                for (i, _) in frames.iter().enumerate() {
                    let got = obj.frame_pixel_data(i as u32).map(|c| c.to_vec());
                    if got.as_ref() != Some(&frags[i]) { t.fail(format!("{}: frame_pixel_data({}) = {:?}, expected {:?}", label, i, got, frags[i])); break; }
                }
            }
        }
    }
    // (2b) several fragments per frame with an explicit offset table
    for nframes in 1..=4usize { for per in 1..=3usize { for flen in [2usize, 4] {
        if per == 1 && nframes > 0 && false { continue; }
        t.cases += 1;
        let mut fragments = Vec::new();
        let mut table = Vec::new();
        let mut offset = 0u32;
        let mut per_frame: Vec<Vec<u8>> = Vec::new();
        for f in 0..nframes {
            table.push(offset);
            let mut all = Vec::new();
            // vary the number of fragments per frame a little: frame f has per + (f % 2) fragments
            for k in 0..(per + f % 2) {
                let d = fresh(flen + 2 * (k % 2));
                offset += 8 + d.len() as u32;
                all.extend_from_slice(&d);
                fragments.push(d);
            }
            per_frame.push(all);
        }
        let label = format!("{} frames, fragments {:?}, offset table {:?}", nframes, fragments.iter().map(|f| f.len()).collect::<Vec<_>>(), table);
        if fragments.len() == nframes { continue; }
        let obj = Obj { frames: nframes as u32, fragments, table };
        for f in 0..nframes {
            let got = std::panic::catch_unwind(std::panic::AssertUnwindSafe(|| obj.frame_pixel_data(f as u32).map(|c| c.to_vec())));
            match got {
                Ok(Some(d)) if d == per_frame[f] => {}
                other => { t.fail(format!("{}: frame_pixel_data({}) = {:?}, expected {:?}", label, f, other.map_err(|_| "panic"), per_frame[f])); break; }
            }
        }
    } } }
    println!("EXHAUSTIVE unit=C18.encapsulation cases={} mismatches={}", t.cases, t.bad);
}
