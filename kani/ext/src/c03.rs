//! C03 — element and item headers follow the PS3.5 wire layout.
//! Contract harnesses: `assume(pre); r = real_fn(args); assert(post)`.
use crate::common::*;
use dicom_core::header::{DataElementHeader, Header, HasLength, Length, SequenceItemHeader};
use dicom_core::{Tag, VR};
use dicom_encoding::decode::explicit_be::ExplicitVRBigEndianDecoder;
use dicom_encoding::decode::explicit_le::ExplicitVRLittleEndianDecoder;
use dicom_encoding::decode::Decode;
use dicom_encoding::encode::explicit_be::ExplicitVRBigEndianEncoder;
use dicom_encoding::encode::explicit_le::ExplicitVRLittleEndianEncoder;
use dicom_encoding::encode::implicit_le::ImplicitVRLittleEndianEncoder;
use dicom_encoding::encode::Encode;

// ---------------------------------------------------------------- encoders

/// Contract of `encode_element_header` (all three codecs):
///   Ok(n)  ==> n == hdr_len && out[..n] == hdr_bytes && nothing else written
///   Err    <==> explicit && short_form(vr) && len > 0xFFFF
/// cover points that only exist for the explicit-VR codecs
macro_rules! cover_explicit {
    (explicit, $c:expr, $m:literal) => { kani::cover!($c, $m); };
    (implicit, $c:expr, $m:literal) => {};
}

macro_rules! enc_header_contract {
    ($name:ident, $enc:ty, $ts:expr, $kind:ident) => {
        #[kani::proof]
        #[kani::unwind(14)]
        #[kani::stub(std::backtrace::Backtrace::force_capture, no_bt)]
        pub fn $name() {
            let (vr, code, short) = any_vr();
            let g: u16 = kani::any();
            let e: u16 = kani::any();
            let len: u32 = kani::any();
            let de = DataElementHeader::new(Tag(g, e), vr, Length(len));
            let mut out = [0xA5u8; 12];
            let rem;
            let r = {
                let mut w = &mut out[..];
                let r = <$enc>::default().encode_element_header(&mut w, de);
                rem = w.len();
                r
            };
            let spec = spec_header($ts, g, e, code, short, len);
            match r {
                Ok(n) => {
                    assert!(spec.is_some(), "C03.enc: over-long 16-bit length must be rejected, not truncated");
                    let (b, sn) = spec.unwrap();
                    assert!(n == sn, "C03.enc: reported header size equals layout size");
                    assert!(12 - rem == sn, "C03.enc: bytes written equals layout size");
                    let mut i = 0;
                    while i < 12 {
                        if i < sn {
                            assert!(out[i] == b[i], "C03.enc: header bytes follow PS3.5 7.1.2 layout");
                        } else {
                            assert!(out[i] == 0xA5, "C03.enc: nothing written past the header");
                        }
                        i += 1;
                    }
                    kani::cover!(sn == 8, "short form reachable");
                    cover_explicit!($kind, sn == 12, "long form reachable");
                }
                Err(err) => {
                    core::mem::forget(err);
                    assert!(spec.is_none(), "C03.enc: a header that fits its length field must be encodable");
                    cover_explicit!($kind, true, "rejection reachable");
                }
            }
        }
    };
}
enc_header_contract!(c03_enc_header_explicit_le, ExplicitVRLittleEndianEncoder, Ts::ExplicitLe, explicit);
enc_header_contract!(c03_enc_header_explicit_be, ExplicitVRBigEndianEncoder, Ts::ExplicitBe, explicit);
enc_header_contract!(c03_enc_header_implicit_le, ImplicitVRLittleEndianEncoder, Ts::ImplicitLe, implicit);

/// Contract of `encode_item_header`, `encode_item_delimiter`, `encode_sequence_delimiter`.
macro_rules! enc_item_contract {
    ($name:ident, $enc:ty, $ts:expr) => {
        #[kani::proof]
        #[kani::unwind(14)]
        #[kani::stub(std::backtrace::Backtrace::force_capture, no_bt)]
        pub fn $name() {
            let len: u32 = kani::any();
            let which: u8 = kani::any();
            kani::assume(which < 3);
            let mut out = [0xA5u8; 12];
            let rem;
            let r = {
                let mut w = &mut out[..];
                let enc = <$enc>::default();
                let r = match which {
                    0 => enc.encode_item_header(&mut w, len),
                    1 => enc.encode_item_delimiter(&mut w),
                    _ => enc.encode_sequence_delimiter(&mut w),
                };
                rem = w.len();
                r
            };
            let b = match which {
                0 => spec_item($ts, 0xE000, len),
                1 => spec_item($ts, 0xE00D, 0),
                _ => spec_item($ts, 0xE0DD, 0),
            };
            match r {
                Ok(()) => {
                    assert!(12 - rem == 8, "C03.item: item/delimiter header is 8 bytes");
                    let mut i = 0;
                    while i < 12 {
                        if i < 8 {
                            assert!(out[i] == b[i], "C03.item: tag FFFE,E000/E00D/E0DD + 32-bit length");
                        } else {
                            assert!(out[i] == 0xA5, "C03.item: nothing written past the header");
                        }
                        i += 1;
                    }
                    kani::cover!(which == 0, "item header reachable");
                    kani::cover!(which == 1, "item delimiter reachable");
                    kani::cover!(which == 2, "sequence delimiter reachable");
                }
                Err(err) => {
                    core::mem::forget(err);
                    assert!(false, "C03.item: writing 8 bytes into a 12-byte sink cannot fail");
                }
            }
        }
    };
}
enc_item_contract!(c03_enc_item_explicit_le, ExplicitVRLittleEndianEncoder, Ts::ExplicitLe);
enc_item_contract!(c03_enc_item_explicit_be, ExplicitVRBigEndianEncoder, Ts::ExplicitBe);
enc_item_contract!(c03_enc_item_implicit_le, ImplicitVRLittleEndianEncoder, Ts::ImplicitLe);

// ---------------------------------------------------------------- decoders

/// Contract of `decode_header` (explicit codecs) on any 12 bytes:
///   Ok((h, n)); h.tag/vr/len and n are what the layout prescribes; the source is
///   advanced by exactly n; an undefined VR code is not recognised as a defined VR.
macro_rules! dec_header_contract {
    ($name:ident, $dec:ty, $ts:expr) => {
        #[kani::proof]
        #[kani::unwind(4)]
        #[kani::stub(std::backtrace::Backtrace::force_capture, no_bt)]
        pub fn $name() {
            let src: [u8; 12] = kani::any();
            let mut s = &src[..];
            let r = <$dec>::default().decode_header(&mut s);
            let (g, e, vr, len, n) = spec_decode_explicit($ts, &src);
            match r {
                Ok((h, bytes_read)) => {
                    assert!(h.tag == Tag(g, e), "C03.dec: tag read per layout");
                    assert!(bytes_read == n, "C03.dec: reported header size equals the layout size");
                    assert!(12 - s.len() == bytes_read, "C03.dec: source advanced by exactly bytes_read");
                    assert!(h.len.0 == len, "C03.dec: length field read from the position/width the layout prescribes");
                    match vr {
                        Some(v) => assert!(h.vr == v, "C03.dec: VR is the one spelled by the two-letter code"),
                        None => assert!(h.vr == VR::UN, "C03.dec: an undefined VR code is not recognised as a defined VR"),
                    }
                    kani::cover!(n == 8 && g != 0xFFFE, "short form reachable");
                    kani::cover!(n == 12 && vr.is_some(), "long form reachable");
                    kani::cover!(vr.is_none(), "undefined code reachable");
                    kani::cover!(g == 0xFFFE, "delimiter reachable");
                }
                Err(err) => {
                    core::mem::forget(err);
                    assert!(false, "C03.dec: 12 bytes always hold a complete header");
                }
            }
        }
    };
}
dec_header_contract!(c03_dec_header_explicit_le, ExplicitVRLittleEndianDecoder, Ts::ExplicitLe);
dec_header_contract!(c03_dec_header_explicit_be, ExplicitVRBigEndianDecoder, Ts::ExplicitBe);

use dicom_core::dictionary::VirtualVr;
use dicom_encoding::decode::implicit_le::ImplicitVRLittleEndianDecoder;

/// Contract of the implicit decoder with the dictionary abstracted by its contract.
#[kani::proof]
#[kani::unwind(4)]
#[kani::stub(std::backtrace::Backtrace::force_capture, no_bt)]
pub fn c03_dec_header_implicit_le() {
    let src: [u8; 8] = kani::any();
    let g = get16(Ts::ImplicitLe, &src[0..2]);
    let e = get16(Ts::ImplicitLe, &src[2..4]);
    let (dict, answer) = SymDict::any_for(Tag(g, e));
    let dec = ImplicitVRLittleEndianDecoder::with_dict(dict);
    let mut s = &src[..];
    match dec.decode_header(&mut s) {
        Ok((h, bytes_read)) => {
            assert!(h.tag == Tag(g, e), "C03.dec: tag read per layout");
            assert!(bytes_read == 8 && s.len() == 0, "C03.dec: implicit header is tag + 32-bit length = 8 bytes");
            assert!(h.len.0 == get32(Ts::ImplicitLe, &src[4..8]), "C03.dec: 32-bit little-endian length");
            // PS3.5 A.1: OW for Pixel Data (7FE0,0010) and Overlay Data (60xx,3000); else the dictionary's VR; else UN
            let expect = if (g == 0x7FE0 && e == 0x0010) || (g >> 8 == 0x60 && e == 0x3000) {
                VR::OW
            } else {
                match answer {
                    Some(v) => spec_relaxed(v),
                    None => VR::UN,
                }
            };
            assert!(h.vr == expect, "C03.dec: implicit VR comes from the dictionary (OW for pixel/overlay data, UN if unknown)");
            kani::cover!(answer.is_none(), "unknown attribute reachable");
            kani::cover!(g == 0x7FE0 && e == 0x0010, "pixel data reachable");
        }
        Err(err) => {
            core::mem::forget(err);
            assert!(false, "C03.dec: 8 bytes always hold a complete implicit header");
        }
    }
}

/// `decode_item_header` on any 8 bytes: Ok <=> tag is FFFE,E000/E00D/E0DD (delimiters
/// with zero length), and the length is the 32-bit field.
macro_rules! dec_item_contract {
    ($name:ident, $dec:expr, $ts:expr) => {
        #[kani::proof]
        #[kani::unwind(4)]
        #[kani::stub(std::backtrace::Backtrace::force_capture, no_bt)]
        pub fn $name() {
            let src: [u8; 8] = kani::any();
            let g = get16($ts, &src[0..2]);
            let e = get16($ts, &src[2..4]);
            let len = get32($ts, &src[4..8]);
            let mut s = &src[..];
            let dec = $dec;
            match dec.decode_item_header(&mut s) {
                Ok(h) => {
                    assert!(s.len() == 0, "C03.item: item header consumes 8 bytes");
                    assert!(g == 0xFFFE, "C03.item: only group FFFE is an item header");
                    match h {
                        SequenceItemHeader::Item { len: l } => {
                            assert!(e == 0xE000 && l.0 == len, "C03.item: item = FFFE,E000 + 32-bit length");
                            kani::cover!(true, "item reachable");
                        }
                        SequenceItemHeader::ItemDelimiter => {
                            assert!(e == 0xE00D, "C03.item: item delimiter = FFFE,E00D");
                            kani::cover!(true, "item delimiter reachable");
                        }
                        SequenceItemHeader::SequenceDelimiter => {
                            assert!(e == 0xE0DD, "C03.item: sequence delimiter = FFFE,E0DD");
                            kani::cover!(true, "sequence delimiter reachable");
                        }
                    }
                }
                Err(err) => {
                    core::mem::forget(err);
                    // rejected only when it is not a well-formed item/delimiter header
                    assert!(
                        !(g == 0xFFFE && (e == 0xE000 || ((e == 0xE00D || e == 0xE0DD) && len == 0))),
                        "C03.item: a well-formed item/delimiter header is accepted"
                    );
                    kani::cover!(true, "rejection reachable");
                }
            }
        }
    };
}
dec_item_contract!(c03_dec_item_explicit_le, ExplicitVRLittleEndianDecoder::default(), Ts::ExplicitLe);
dec_item_contract!(c03_dec_item_explicit_be, ExplicitVRBigEndianDecoder::default(), Ts::ExplicitBe);
dec_item_contract!(
    c03_dec_item_implicit_le,
    ImplicitVRLittleEndianDecoder::with_dict(SymDict { entry: None }),
    Ts::ImplicitLe
);
dec_item_contract!(
    c03_dec_item_adaptive_le,
    dicom_encoding::decode::adaptive_le::AdaptiveVRLittleEndianDecoder::with_dict(SymDict { entry: None }),
    Ts::ExplicitLe
);

/// Round trip: whenever encoding succeeds (and the tag is not in group FFFE),
/// decoding the bytes returns the same tag, VR and length and the same size.
macro_rules! header_roundtrip {
    ($name:ident, $enc:ty, $dec:ty) => {
        #[kani::proof]
        #[kani::unwind(4)]
        #[kani::stub(std::backtrace::Backtrace::force_capture, no_bt)]
        pub fn $name() {
            let (vr, _code, _short) = any_vr();
            let g: u16 = kani::any();
            let e: u16 = kani::any();
            kani::assume(g != 0xFFFE);
            let len: u32 = kani::any();
            let de = DataElementHeader::new(Tag(g, e), vr, Length(len));
            let mut out = [0u8; 12];
            let r = {
                let mut w = &mut out[..];
                <$enc>::default().encode_element_header(&mut w, de)
            };
            match r {
                Ok(n) => {
                    let mut s = &out[..];
                    match <$dec>::default().decode_header(&mut s) {
                        Ok((h, m)) => {
                            assert!(h.tag == Tag(g, e) && h.vr == vr && h.len.0 == len,
                                "C03.rt: decoding an encoded header returns the same tag, VR and length");
                            assert!(m == n && 12 - s.len() == n, "C03.rt: and reports exactly the bytes the layout occupies");
                            kani::cover!(true, "round trip reachable");
                        }
                        Err(err) => {
                            core::mem::forget(err);
                            assert!(false, "C03.rt: an encoded header decodes");
                        }
                    }
                }
                Err(err) => core::mem::forget(err),
            }
        }
    };
}
header_roundtrip!(c03_roundtrip_explicit_le, ExplicitVRLittleEndianEncoder, ExplicitVRLittleEndianDecoder);
header_roundtrip!(c03_roundtrip_explicit_be, ExplicitVRBigEndianEncoder, ExplicitVRBigEndianDecoder);

/// A two-letter code is recognised iff it is one of the 34 defined codes, and then
/// `to_bytes` gives the code back; `from_str(to_string(v)) == v`.
#[kani::proof]
#[kani::unwind(4)]
pub fn c03_vr_codes() {
    let a: u8 = kani::any();
    let b: u8 = kani::any();
    let spec = spec_vr_of_code([a, b]);
    match VR::from_binary([a, b]) {
        Some(v) => {
            assert!(spec.is_some(), "C03.vr: only defined codes are recognised");
            assert!(spec.unwrap().0 == v, "C03.vr: the code maps to its VR");
            assert!(v.to_bytes() == [a, b], "C03.vr: to_bytes returns the code");
            kani::cover!(true, "defined code reachable");
        }
        None => {
            assert!(spec.is_none(), "C03.vr: every defined code is recognised");
            kani::cover!(true, "undefined code reachable");
        }
    }
}

#[kani::proof]
#[kani::unwind(4)]
pub fn c03_vr_to_from_string() {
    let (vr, code, _) = any_vr();
    assert!(vr.to_bytes() == code, "C03.vr: every VR prints its PS3.5 code");
    let s = vr.to_string();
    assert!(s.len() == 2, "C03.vr: two letters");
    match s.parse::<VR>() {
        Ok(v) => assert!(v == vr, "C03.vr: from_str(to_string(v)) == v"),
        Err(_) => assert!(false, "C03.vr: printed code parses"),
    }
}
