//! Native stand-in for the "never aborts" clause of C05 under LIMITED MEMORY, on the compiled code (not a deductive
//! result; bounded): a few bytes that DECLARE a huge length (0xFFFFFFF0) and then end — an element of each of 12
//! value representations in the three uncompressed transfer syntaxes, a file meta element, a pixel data fragment, a
//! PDU — through the eager reader, from_reader on a complete file, the lazy reader (reading the value), the file
//! meta reader and read_pdu; and image attributes that describe far more pixel data than any machine holds, through the
//! pixel data decoders of five encapsulated transfer syntaxes. Every case runs in a child process whose address space is limited to 1 GiB
//! (`ulimit -v`), because a failed allocation ABORTS the process (`memory allocation of N bytes failed`), which
//! catch_unwind cannot see: a reader that reserves the declared length fallibly (as the file meta reader does with
//! `try_reserve_exact`) or reads in bounded pieces returns an error; one that allocates the declared length up front
//! dies. A value or an error is fine; a dead child is reported, every one of them on a line of its own.
use dicom_encoding::transfer_syntax::TransferSyntaxIndex;
use dicom_object::InMemDicomObject;
use dicom_parser::dataset::lazy_read::LazyDataSetReader;
use dicom_transfer_syntax_registry::TransferSyntaxRegistry;
use std::io::Cursor;

const HUGE: u32 = 0xFFFF_FFF0;

fn element(ts: &str, tag: (u16, u16), vr: &str, len: u32) -> Vec<u8> {
    let (implicit, be) = (ts == "1.2.840.10008.1.2", ts == "1.2.840.10008.1.2.2");
    let u16b = |v: u16| if be { v.to_be_bytes() } else { v.to_le_bytes() };
    let u32b = |v: u32| if be { v.to_be_bytes() } else { v.to_le_bytes() };
    let mut out = Vec::new();
    out.extend_from_slice(&u16b(tag.0)); out.extend_from_slice(&u16b(tag.1));
    if implicit { out.extend_from_slice(&u32b(len)); return out; }
    out.extend_from_slice(vr.as_bytes());
    let short = ["AE", "AS", "AT", "CS", "DA", "DS", "DT", "FL", "FD", "IS", "LO", "LT", "PN", "SH", "SL", "SS", "ST", "TM", "UI", "UL", "US"].contains(&vr);
    if short { out.extend_from_slice(&u16b(len as u16)); } else { out.extend_from_slice(&[0, 0]); out.extend_from_slice(&u32b(len)); }
    out
}

/// (tag, VR) pairs whose dictionary VR equals the VR written, so that Implicit VR LE takes the same path
const ELEMENTS: [((u16, u16), &str); 12] = [
    ((0x7FE0, 0x0010), "OB"), ((0x7FE0, 0x0010), "OW"), ((0x0042, 0x0011), "OB"), ((0x0008, 0x0119), "UC"), ((0x0008, 0x0120), "UR"), ((0x0040, 0xA160), "UT"),
    ((0x7FE0, 0x0009), "OD"), ((0x7FE0, 0x0008), "OF"), ((0x0066, 0x0129), "OL"), ((0x0066, 0x0125), "OV"), ((0x0009, 0x0011), "UN"), ((0x0008, 0x1140), "SQ"),
];

fn child(what: &str, ts_uid: &str, idx: usize) {
    let ts = TransferSyntaxRegistry.get(ts_uid).expect("ts");
    let (tag, vr) = ELEMENTS[idx.min(ELEMENTS.len() - 1)];
    let mut data = element(ts_uid, tag, vr, HUGE);
    if vr == "SQ" {
        // a defined-length sequence with a defined-length item, both huge
        let be = ts_uid == "1.2.840.10008.1.2.2";
        data.extend_from_slice(&if be { 0xFFFEu16.to_be_bytes() } else { 0xFFFEu16.to_le_bytes() });
        data.extend_from_slice(&if be { 0xE000u16.to_be_bytes() } else { 0xE000u16.to_le_bytes() });
        data.extend_from_slice(&if be { (HUGE - 8).to_be_bytes() } else { (HUGE - 8).to_le_bytes() });
    }
    data.extend_from_slice(&[1, 2, 3, 4]);
    match what {
        "eager" => { let r = InMemDicomObject::read_dataset_with_ts(&data[..], ts); println!("{}", if r.is_ok() { "OK" } else { "ERR" }); }
        "lazy" => match LazyDataSetReader::new_with_ts(Cursor::new(&data[..]), ts) {
            Ok(mut r) => { let mut n = 0; while let Some(t) = r.advance() { match t { Ok(t) => { if t.into_value().is_err() { break; } n += 1; } Err(_) => break } } println!("OK {}", n); }
            Err(_) => println!("ERR"),
        },
        "file" => {
            let mut bytes = Vec::new();
            let meta = dicom_object::FileMetaTableBuilder::new().transfer_syntax(ts_uid).media_storage_sop_class_uid("1.2.840.10008.5.1.4.1.1.7").media_storage_sop_instance_uid("2.25.1").build().expect("meta");
            bytes.extend_from_slice(&[0u8; 128]); bytes.extend_from_slice(b"DICM");
            meta.write(&mut bytes).expect("meta write");
            bytes.extend_from_slice(&data);
            let r = dicom_object::from_reader(&bytes[..]);
            println!("{}", if r.is_ok() { "OK" } else { "ERR" });
        }
        "fragment" => {
            // encapsulated pixel data: empty offset table, then a fragment item declaring a huge length
            let mut d = element("1.2.840.10008.1.2.1", (0x7FE0, 0x0010), "OB", 0xFFFF_FFFF);
            d.extend_from_slice(&[0xFE, 0xFF, 0x00, 0xE0, 0, 0, 0, 0]);
            d.extend_from_slice(&[0xFE, 0xFF, 0x00, 0xE0]); d.extend_from_slice(&HUGE.to_le_bytes());
            d.extend_from_slice(&[1, 2, 3, 4]);
            let ts = TransferSyntaxRegistry.get("1.2.840.10008.1.2.1").expect("ts");
            let r = InMemDicomObject::read_dataset_with_ts(&d[..], ts);
            println!("{}", if r.is_ok() { "OK" } else { "ERR" });
        }
        "offset_table" => {
            let mut d = element("1.2.840.10008.1.2.1", (0x7FE0, 0x0010), "OB", 0xFFFF_FFFF);
            d.extend_from_slice(&[0xFE, 0xFF, 0x00, 0xE0]); d.extend_from_slice(&HUGE.to_le_bytes());
            d.extend_from_slice(&[1, 2, 3, 4]);
            let ts = TransferSyntaxRegistry.get("1.2.840.10008.1.2.1").expect("ts");
            let r = InMemDicomObject::read_dataset_with_ts(&d[..], ts);
            println!("{}", if r.is_ok() { "OK" } else { "ERR" });
        }
        "meta" => {
            // magic code, group length, then Transfer Syntax UID declaring 65520 bytes / private information declaring a huge length
            let mut g = b"DICM".to_vec();
            g.extend_from_slice(&[0x02, 0x00, 0x00, 0x00, b'U', b'L', 4, 0]); g.extend_from_slice(&HUGE.to_le_bytes());
            g.extend_from_slice(&[0x02, 0x00, 0x02, 0x01, b'O', b'B', 0, 0]); g.extend_from_slice(&HUGE.to_le_bytes());
            g.extend_from_slice(&[1, 2, 3, 4]);
            let r = dicom_object::FileMetaTable::from_reader(&g[..]);
            println!("{}", if r.is_ok() { "OK" } else { "ERR" });
        }
        "pixel_huge" => {
            // image attributes that describe far more pixel data than any machine holds (Rows = Columns = Samples per Pixel = 65535,
            // 16 bits, Number of Frames 1 / 16500 / 4294967295) over a 64-byte fragment, through the decoders that size their output
            // buffer from the attributes (JPEG, RLE) and the others
            use dicom_core::value::{PixelFragmentSequence, Value};
            use dicom_core::{dicom_value, DataElement, PrimitiveValue, Tag, VR};
            use dicom_pixeldata::PixelDecoder;
            for nf in ["1", "16500", "4294967295"] {
                let o = InMemDicomObject::from_element_iter([
                    DataElement::new(Tag(0x0028, 0x0002), VR::US, dicom_value!(U16, [65535])),
                    DataElement::new(Tag(0x0028, 0x0004), VR::CS, PrimitiveValue::from("MONOCHROME2")),
                    DataElement::new(Tag(0x0028, 0x0008), VR::IS, PrimitiveValue::from(nf)),
                    DataElement::new(Tag(0x0028, 0x0010), VR::US, dicom_value!(U16, [65535])),
                    DataElement::new(Tag(0x0028, 0x0011), VR::US, dicom_value!(U16, [65535])),
                    DataElement::new(Tag(0x0028, 0x0100), VR::US, dicom_value!(U16, [16])),
                    DataElement::new(Tag(0x0028, 0x0101), VR::US, dicom_value!(U16, [16])),
                    DataElement::new(Tag(0x0028, 0x0102), VR::US, dicom_value!(U16, [15])),
                    DataElement::new(Tag(0x0028, 0x0103), VR::US, dicom_value!(U16, [0])),
                    DataElement::new(Tag(0x7FE0, 0x0010), VR::OB, Value::from(PixelFragmentSequence::new(vec![], vec![vec![0u8; 64]]))),
                ]);
                if let Ok(f) = o.with_meta(dicom_object::FileMetaTableBuilder::new().transfer_syntax(ts_uid)) {
                    let _ = f.decode_pixel_data();
                    let _ = f.decode_pixel_data_frame(0);
                }
            }
            println!("OK");
        }
        "pdu" => {
            use dicom_ul::pdu::{read_pdu, MAXIMUM_PDU_SIZE};
            for (ty, strict) in [(0x04u8, true), (0x04, false), (0x01, false), (0x02, false), (0x55, false)] {
                let mut d = vec![ty, 0];
                d.extend_from_slice(&HUGE.to_be_bytes());
                d.extend_from_slice(&[0, 0, 0, 8, 1, 2, 1, 2, 3, 4]);
                let _ = read_pdu(&mut Cursor::new(&d[..]), MAXIMUM_PDU_SIZE, strict);
                // an item inside an A-ASSOCIATE-RQ whose 16-bit length is larger than the PDU
                let mut d = vec![0x01, 0, 0, 0, 0, 80, 0, 1, 0, 0];
                d.extend_from_slice(&[b' '; 32]); d.extend_from_slice(&[0; 32]);
                d.extend_from_slice(&[0x10, 0, 0xFF, 0xF0, 1, 2]);
                let _ = read_pdu(&mut Cursor::new(&d[..]), MAXIMUM_PDU_SIZE, strict);
            }
            println!("OK");
        }
        _ => panic!("unknown child mode"),
    }
}

fn main() {
    let args: Vec<String> = std::env::args().collect();
    if args.len() >= 5 && args[1] == "child" {
        child(&args[2], &args[3], args[4].parse().unwrap());
        return;
    }
    let exe = std::env::current_exe().expect("exe");
    let (mut cases, mut bad) = (0u64, 0u64);
    let mut run = |what: &str, ts: &str, idx: usize, label: String| -> bool {
        cases += 1;
        // 1 GiB of address space for the child
        let cmd = format!("ulimit -v 1048576 && exec '{}' child {} {} {}", exe.display(), what, ts, idx);
        match std::process::Command::new("sh").args(["-c", &cmd]).output() {
            Ok(o) if o.status.success() => true,
            Ok(o) => {
                bad += 1;
                use std::os::unix::process::ExitStatusExt;
                let err = String::from_utf8_lossy(&o.stderr);
                let reason = err.lines().find(|l| l.contains("memory allocation") || l.contains("panicked") || l.contains("overflow") || l.contains("ulimit")).unwrap_or("").to_string();
                let reason = if reason.contains("memory allocation of") { "memory allocation failed".to_string() } else { reason };
                println!("WITNESS unit=C05.alloc reader={} {}: the process died (signal {:?}, exit code {:?}; {})", what, label, o.status.signal(), o.status.code(), reason);
                true
            }
            Err(_) => false,
        }
    };
    // can the limit be set at all?
    match std::process::Command::new("sh").args(["-c", "ulimit -v 1048576"]).status() {
        Ok(s) if s.success() => {}
        _ => { println!("SKIPPED unit=C05.alloc reason=cannot limit the address space of a child process (ulimit -v)"); return; }
    }
    for what in ["eager", "file", "lazy"] {
        for ts in ["1.2.840.10008.1.2", "1.2.840.10008.1.2.1", "1.2.840.10008.1.2.2"] {
            for (i, (tag, vr)) in ELEMENTS.iter().enumerate() {
                if !run(what, ts, i, format!("ts={} element=({:04X},{:04X}) vr={} declared_length=4294967280", ts, tag.0, tag.1, vr)) { println!("SKIPPED unit=C05.alloc reason=cannot start a child process"); return; }
            }
        }
    }
    for what in ["fragment", "offset_table", "meta", "pdu"] {
        run(what, "1.2.840.10008.1.2.1", 0, "declared_length=4294967280".to_string());
    }
    for ts in ["1.2.840.10008.1.2.4.50", "1.2.840.10008.1.2.4.70", "1.2.840.10008.1.2.5", "1.2.840.10008.1.2.1.98", "1.2.840.10008.1.2.8.1"] {
        run("pixel_huge", ts, 0, format!("ts={} Rows=Columns=SamplesPerPixel=65535", ts));
    }
    println!("EXHAUSTIVE unit=C05.alloc cases={} mismatches={}", cases, bad);
}
