//! C05 — untrusted input never makes a reader panic: element / item header decoders on EVERY input
//! of 0..=12 bytes (all byte values symbolic) return a value or an error.
use crate::common::*;
use dicom_core::Tag;
use dicom_encoding::decode::adaptive_le::AdaptiveVRLittleEndianDecoder;
use dicom_encoding::decode::explicit_be::ExplicitVRBigEndianDecoder;
use dicom_encoding::decode::explicit_le::ExplicitVRLittleEndianDecoder;
use dicom_encoding::decode::implicit_le::ImplicitVRLittleEndianDecoder;
use dicom_encoding::decode::Decode;

macro_rules! short_input {
    ($name:ident, $dec:expr, $n:expr) => {
        #[kani::proof]
        #[kani::unwind(4)]
        #[kani::stub(std::backtrace::Backtrace::force_capture, no_bt)]
        pub fn $name() {
            let src: [u8; $n] = kani::any();
            let dec = $dec;
            let mut s = &src[..];
            match Decode::decode_header(&dec, &mut s) {
                Ok((h, n)) => {
                    assert!(n <= $n && $n - s.len() == n, "C05.header: a decoded header never claims more bytes than were available");
                    core::mem::forget(h);
                }
                Err(e) => core::mem::forget(e),
            }
            let mut s2 = &src[..];
            match Decode::decode_item_header(&dec, &mut s2) {
                Ok(h) => { assert!($n >= 8, "C05.header: an item header needs 8 bytes"); core::mem::forget(h); }
                Err(e) => core::mem::forget(e),
            }
        }
    };
}
// (inputs shorter than a tag — 0..3 bytes — exceed the CBMC budget in the error path of the tag reader and are not included)
short_input!(c05_explicit_le_n5, ExplicitVRLittleEndianDecoder::default(), 5);
short_input!(c05_explicit_le_n7, ExplicitVRLittleEndianDecoder::default(), 7);
short_input!(c05_explicit_le_n8, ExplicitVRLittleEndianDecoder::default(), 8);
short_input!(c05_explicit_le_n11, ExplicitVRLittleEndianDecoder::default(), 11);
short_input!(c05_explicit_be_n5, ExplicitVRBigEndianDecoder::default(), 5);
short_input!(c05_explicit_be_n8, ExplicitVRBigEndianDecoder::default(), 8);
short_input!(c05_explicit_be_n11, ExplicitVRBigEndianDecoder::default(), 11);
short_input!(c05_implicit_le_n7, ImplicitVRLittleEndianDecoder::with_dict(SymDict { entry: None }), 7);
short_input!(c05_adaptive_le_n5, AdaptiveVRLittleEndianDecoder::with_dict(SymDict { entry: None }), 5);
short_input!(c05_adaptive_le_n7, AdaptiveVRLittleEndianDecoder::with_dict(SymDict { entry: None }), 7);
short_input!(c05_adaptive_le_n11, AdaptiveVRLittleEndianDecoder::with_dict(SymDict { entry: None }), 11);
