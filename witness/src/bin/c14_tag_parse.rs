//! Witness search for C14/C05: `Tag::from_str` on strings of 8, 9 and 11 bytes containing a
//! multi-byte character at every position (and plain ASCII forms): must never panic.
use dicom_core::Tag;
use std::str::FromStr;

fn main() {
    let mut found = 0;
    let mut tried = 0u32;
    for total in [8usize, 9, 11] {
        for mb in ["é", "€", "😀"] {
            if mb.len() > total { continue; }
            for pos in 0..=(total - mb.len()) {
                for fill in ['0', 'a', '(', ','] {
                    let mut s = String::new();
                    for _ in 0..pos { s.push(fill); }
                    s.push_str(mb);
                    while s.len() < total { s.push(fill); }
                    if s.len() != total { continue; }
                    tried += 1;
                    let s2 = s.clone();
                    let r = std::panic::catch_unwind(move || Tag::from_str(&s2).is_ok());
                    match r {
                        Err(_) => { found += 1; if found <= 5 { println!("WITNESS unit=C14.tag_from_str input={:?} ({} bytes): Tag::from_str panics", s, total); } }
                        Ok(true) => { found += 1; println!("WITNESS unit=C14.tag_from_str input={:?} accepted although it is not a tag form", s); }
                        Ok(false) => {}
                    }
                }
            }
        }
    }
    if found == 0 { println!("no witness: {} strings with a multi-byte character are rejected without panic", tried); }
    else { println!("{} failing inputs of {}", found, tried); }
}
