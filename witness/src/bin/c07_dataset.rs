//! Native cross-check for C07 at data-set level on the compiled code (stand-in; not a deductive result):
//! the real `DataSetReader` (Explicit VR Little Endian) on streams that contain an element of every VR
//! with an odd declared length (1-13), at top level, inside a defined-length item of a defined-length
//! sequence, and alone inside an item whose own declared length is odd, each followed by a sentinel element. Accept: exactly the declared bytes are the value and
//! the sentinel is read at the right place; NextEven (stream written with one more byte per odd value):
//! one more byte is consumed and the sentinel is read at the right place; Fail: the first token is an
//! error. Defined-length items and sequences end exactly where their length says (ItemEnd / SequenceEnd
//! tokens in place), and at the end the source has been consumed exactly to its end.
use dicom_core::{Tag, VR};
use dicom_parser::dataset::read::{DataSetReader, DataSetReaderOptions, OddLengthStrategy, ValueReadStrategy};
use dicom_parser::dataset::DataToken;
use dicom_transfer_syntax_registry::entries;
use std::io::Cursor;

const VRS: [VR; 32] = [
    VR::AE, VR::AS, VR::AT, VR::CS, VR::DA, VR::DS, VR::DT, VR::FL, VR::FD, VR::IS, VR::LO, VR::LT, VR::OB, VR::OD,
    VR::OF, VR::OL, VR::OV, VR::OW, VR::PN, VR::SH, VR::SL, VR::SS, VR::ST, VR::SV, VR::TM, VR::UC, VR::UI, VR::UL,
    VR::UR, VR::US, VR::UT, VR::UV,
];

fn short_form(vr: VR) -> bool {
    use VR::*;
    matches!(vr, AE | AS | AT | CS | DA | DS | DT | FL | FD | IS | LO | LT | PN | SH | SL | SS | ST | TM | UI | UL | US)
}

fn element(tag: Tag, vr: VR, declared: u32, body: &[u8]) -> Vec<u8> {
    let mut o = Vec::new();
    o.extend_from_slice(&tag.0.to_le_bytes());
    o.extend_from_slice(&tag.1.to_le_bytes());
    o.extend_from_slice(&vr.to_bytes());
    if short_form(vr) { o.extend_from_slice(&(declared as u16).to_le_bytes()); } else { o.extend_from_slice(&[0, 0]); o.extend_from_slice(&declared.to_le_bytes()); }
    o.extend_from_slice(body);
    o
}

struct Tally { cases: u64, bad: u64 }
impl Tally {
    fn fail(&mut self, what: String) {
        self.bad += 1;
        if self.bad <= 8 { println!("WITNESS unit=C07.dataset {}", what); }
    }
}

/// (a) the LAZY reader on the same kind of streams, consuming every value either with `skip()` or with `into_value()` /
/// `read_value_into`; (b) encapsulated pixel data whose offset table / fragments have odd declared lengths, eager and lazy
fn lazy_and_pixel(t: &mut Tally) {
    use dicom_parser::dataset::lazy_read::{LazyDataSetReader, LazyDataSetReaderOptions};
    use dicom_parser::dataset::LazyDataToken;
    let ts = entries::EXPLICIT_VR_LITTLE_ENDIAN.erased();
    let sent = element(Tag(0x0010, 0x0020), VR::LO, 2, b"ID");
    // returns (token kinds, error, bytes consumed)
    let run_lazy = |stream: &[u8], strategy: OddLengthStrategy, mode: u8| -> (Vec<String>, Option<String>, usize) {
        let mut cur = Cursor::new(stream);
        let mut toks = Vec::new();
        let mut err = None;
        {
            let mut options = LazyDataSetReaderOptions::default();
            options.odd_length = strategy;
            let mut r = match LazyDataSetReader::new_with_ts_options(&mut cur, &ts, options) { Ok(r) => r, Err(e) => return (toks, Some(e.to_string()), 0) };
            loop {
                let tok = match r.advance() { None => break, Some(Err(e)) => { err = Some(e.to_string()); break; } Some(Ok(tok)) => tok };
                match tok {
                    LazyDataToken::ElementHeader(h) => toks.push(format!("H{}", h.tag)),
                    LazyDataToken::SequenceStart { tag, .. } => toks.push(format!("S{}", tag)),
                    LazyDataToken::PixelSequenceStart => toks.push("P".to_string()),
                    LazyDataToken::ItemStart { .. } => toks.push("I".to_string()),
                    LazyDataToken::ItemEnd => toks.push("i".to_string()),
                    LazyDataToken::SequenceEnd => toks.push("s".to_string()),
                    tok @ LazyDataToken::LazyValue { .. } => {
                        if mode == 0 { if let Err(e) = tok.skip() { err = Some(e.to_string()); break; } toks.push("V".to_string()); }
                        else { let mut buf = Vec::new(); match tok.read_value_into(&mut buf) { Ok(()) => toks.push(format!("V{}", buf.len())), Err(e) => { err = Some(e.to_string()); break; } } }
                    }
                    tok @ LazyDataToken::LazyItemValue { .. } => {
                        if mode == 0 { if let Err(e) = tok.skip() { err = Some(e.to_string()); break; } toks.push("F".to_string()); }
                        else { let mut buf = Vec::new(); match tok.read_value_into(&mut buf) { Ok(()) => toks.push(format!("F{}", buf.len())), Err(e) => { err = Some(e.to_string()); break; } } }
                    }
                    #[allow(unreachable_patterns)]
                    _ => toks.push("?".to_string()),
                }
                if toks.len() > 64 { break; }
            }
        }
        (toks, err, cur.position() as usize)
    };
    for strategy in [OddLengthStrategy::Accept, OddLengthStrategy::NextEven, OddLengthStrategy::Fail] {
        let extra = if strategy == OddLengthStrategy::NextEven { 1usize } else { 0 };
        for vr in [VR::OB, VR::UN, VR::LO, VR::UI, VR::US, VR::UL, VR::FD, VR::UT, VR::SV, VR::AT] {
            for len in [1u32, 3, 7, 13] {
                let mut body = vec![b'1'; len as usize];
                body.extend(std::iter::repeat(b' ').take(extra));
                let odd = element(Tag(0x0009, 0x1001), vr, len, &body);
                // top level + inside an item of odd declared length, then the sentinel
                let mut item = vec![0xFE, 0xFF, 0x00, 0xE0];
                item.extend_from_slice(&((odd.len() - extra) as u32).to_le_bytes());
                item.extend_from_slice(&odd);
                let mut stream = odd.clone();
                stream.extend_from_slice(&sent);
                stream.extend_from_slice(&[0x08, 0x00, 0x15, 0x11, b'S', b'Q', 0, 0, 0xFF, 0xFF, 0xFF, 0xFF]);
                stream.extend_from_slice(&item);
                stream.extend_from_slice(&[0xFE, 0xFF, 0xDD, 0xE0, 0, 0, 0, 0]);
                stream.extend_from_slice(&sent);
                for mode in 0..2u8 {
                    t.cases += 1;
                    let label = format!("lazy reader ({}), {:?} VR {} declared length {}", if mode == 0 { "skip" } else { "read_value_into" }, strategy, vr.to_string(), len);
                    let (toks, err, consumed) = run_lazy(&stream, strategy, mode);
                    if strategy == OddLengthStrategy::Fail {
                        if err.is_none() || !toks.is_empty() { t.fail(format!("{}: expected an error as the first token, got {:?} / {:?}", label, toks, err)); }
                        continue;
                    }
                    let v = if mode == 0 { "V".to_string() } else { format!("V{}", len as usize + extra) };
                    let v2 = if mode == 0 { "V".to_string() } else { "V2".to_string() };
                    let want: Vec<String> = vec!["H(0009,1001)".to_string(), v.clone(), "H(0010,0020)".to_string(), v2.clone(), "S(0008,1115)".to_string(), "I".to_string(),
                        "H(0009,1001)".to_string(), v, "i".to_string(), "s".to_string(), "H(0010,0020)".to_string(), v2];
                    if err.is_some() || toks != want || consumed != stream.len() { t.fail(format!("{}: tokens {:?} (error {:?}, {} of {} bytes consumed), expected {:?}", label, toks, err, consumed, stream.len(), want)); }
                }
                // the same item inside a DEFINED-length sequence whose own declared length is therefore odd, then the sentinel
                let mut stream2 = vec![0x08, 0x00, 0x15, 0x11, b'S', b'Q', 0, 0];
                stream2.extend_from_slice(&((item.len() - extra) as u32).to_le_bytes());
                stream2.extend_from_slice(&item);
                stream2.extend_from_slice(&sent);
                for mode in 0..2u8 {
                    t.cases += 1;
                    let label = format!("lazy reader ({}), {:?}, defined-length sequence of odd declared length {} holding an item of odd length holding VR {} of declared length {}",
                        if mode == 0 { "skip" } else { "read_value_into" }, strategy, item.len() - extra, vr.to_string(), len);
                    let (toks, err, consumed) = run_lazy(&stream2, strategy, mode);
                    if strategy == OddLengthStrategy::Fail {
                        if err.is_none() || !toks.is_empty() { t.fail(format!("{}: expected an error as the first token, got {:?} / {:?}", label, toks, err)); }
                        continue;
                    }
                    let v = if mode == 0 { "V".to_string() } else { format!("V{}", len as usize + extra) };
                    let v2 = if mode == 0 { "V".to_string() } else { "V2".to_string() };
                    let want: Vec<String> = vec!["S(0008,1115)".to_string(), "I".to_string(), "H(0009,1001)".to_string(), v, "i".to_string(), "s".to_string(), "H(0010,0020)".to_string(), v2];
                    if err.is_some() || toks != want || consumed != stream2.len() { t.fail(format!("{}: tokens {:?} (error {:?}, {} of {} bytes consumed), expected {:?}", label, toks, err, consumed, stream2.len(), want)); }
                }
                // and through the eager reader
                {
                    t.cases += 1;
                    let label = format!("eager reader, {:?}, defined-length sequence of odd declared length {} holding an item of odd length holding VR {} of declared length {}", strategy, item.len() - extra, vr.to_string(), len);
                    let mut cur = Cursor::new(&stream2[..]);
                    let mut options = DataSetReaderOptions::default();
                    options.odd_length = strategy;
                    let mut toks: Vec<String> = Vec::new();
                    let mut err = None;
                    {
                        let reader = DataSetReader::new_with_ts_options(&mut cur, &ts, options).unwrap();
                        for tok in reader {
                            match tok {
                                Ok(DataToken::SequenceStart { tag, .. }) => toks.push(format!("S{}", tag)),
                                Ok(DataToken::ItemStart { .. }) => toks.push("I".to_string()),
                                Ok(DataToken::ItemEnd) => toks.push("i".to_string()),
                                Ok(DataToken::SequenceEnd) => toks.push("s".to_string()),
                                Ok(DataToken::ElementHeader(h)) => toks.push(format!("H{}", h.tag)),
                                Ok(DataToken::PrimitiveValue(_)) => toks.push("V".to_string()),
                                Ok(_) => toks.push("?".to_string()),
                                Err(e) => { err = Some(e.to_string()); break; }
                            }
                            if toks.len() > 32 { break; }
                        }
                    }
                    if strategy == OddLengthStrategy::Fail {
                        if err.is_none() || !toks.is_empty() { t.fail(format!("{}: expected an error as the first token, got {:?} / {:?}", label, toks, err)); }
                    } else {
                        let want: Vec<String> = ["S(0008,1115)", "I", "H(0009,1001)", "V", "i", "s", "H(0010,0020)", "V"].iter().map(|x| x.to_string()).collect();
                        if err.is_some() || toks != want || cur.position() as usize != stream2.len() { t.fail(format!("{}: tokens {:?} (error {:?}, {} of {} bytes consumed), expected {:?}", label, toks, err, cur.position(), stream2.len(), want)); }
                    }
                }
            }
        }
        // encapsulated pixel data: offset table of 0 / 4 / 8 bytes and of lengths that are not a multiple of 4 (5, 7, 6, 2, 1), two fragments, the
        // first with an odd declared length
        for table_len in [0usize, 4, 8, 5, 7, 6, 2, 1] { for flen in [1u32, 3, 5] {
            // an offset table item whose declared length is odd takes one more byte under NextEven, like any other item
            let table_bytes = table_len + if table_len % 2 == 1 { extra } else { 0 };
            let mut stream = vec![0xE0, 0x7F, 0x10, 0x00, b'O', b'B', 0, 0, 0xFF, 0xFF, 0xFF, 0xFF];
            stream.extend_from_slice(&[0xFE, 0xFF, 0x00, 0xE0]); stream.extend_from_slice(&(table_len as u32).to_le_bytes()); stream.extend(std::iter::repeat(0u8).take(table_bytes));
            stream.extend_from_slice(&[0xFE, 0xFF, 0x00, 0xE0]); stream.extend_from_slice(&flen.to_le_bytes()); stream.extend(std::iter::repeat(0xAAu8).take(flen as usize + extra));
            stream.extend_from_slice(&[0xFE, 0xFF, 0x00, 0xE0]); stream.extend_from_slice(&4u32.to_le_bytes()); stream.extend_from_slice(&[1, 2, 3, 4]);
            stream.extend_from_slice(&[0xFE, 0xFF, 0xDD, 0xE0, 0, 0, 0, 0]);
            stream.extend_from_slice(&sent);
            let label = format!("pixel data, {:?}, offset table of {} bytes, first fragment of declared length {}", strategy, table_len, flen);
            // eager
            t.cases += 1;
            let mut cur = Cursor::new(&stream[..]);
            let mut options = DataSetReaderOptions::default();
            options.odd_length = strategy;
            let mut frags: Vec<usize> = Vec::new();
            let mut table: Option<usize> = None;
            let mut tail = Vec::new();
            let mut err = None;
            {
                let reader = DataSetReader::new_with_ts_options(&mut cur, &ts, options).unwrap();
                for tok in reader {
                    match tok {
                        Ok(DataToken::ItemValue(v)) => frags.push(v.len()),
                        Ok(DataToken::OffsetTable(v)) => table = Some(v.len()),
                        Ok(DataToken::ElementHeader(h)) => tail.push(format!("H{}", h.tag)),
                        Ok(DataToken::PrimitiveValue(v)) => tail.push(format!("V{}", v.calculate_byte_len())),
                        Ok(_) => {}
                        Err(e) => { err = Some(e.to_string()); break; }
                    }
                    if tail.len() > 8 { break; }
                }
            }
            if strategy == OddLengthStrategy::Fail {
                if err.is_none() { t.fail(format!("{} (eager reader): an odd fragment length was accepted under the failing strategy (fragments {:?})", label, frags)); }
            } else if err.is_some() || frags != vec![flen as usize + extra, 4] || table.unwrap_or(0) != table_bytes / 4 || tail != vec!["H(0010,0020)".to_string(), "V2".to_string()] || cur.position() as usize != stream.len() {
                t.fail(format!("{} (eager reader): offset table {:?} entries, fragments {:?}, then {:?} (error {:?}, {} of {} bytes consumed)", label, table, frags, tail, err, cur.position(), stream.len()));
            }
            // lazy
            for mode in 0..2u8 {
                t.cases += 1;
                let (toks, err, consumed) = run_lazy(&stream, strategy, mode);
                if strategy == OddLengthStrategy::Fail {
                    if err.is_none() { t.fail(format!("{} (lazy reader): an odd fragment length was accepted under the failing strategy: {:?}", label, toks)); }
                    continue;
                }
                let tail_ok = toks.len() >= 2 && toks[toks.len() - 2] == "H(0010,0020)" && (toks[toks.len() - 1] == "V" || toks[toks.len() - 1] == "V2");
                let frag_toks: Vec<&String> = toks.iter().filter(|x| x.starts_with('F')).collect();
                let frag_ok = if mode == 0 { frag_toks.len() >= 2 } else { frag_toks.iter().rev().take(2).map(|x| x.as_str()).collect::<Vec<_>>() == vec!["F4", &format!("F{}", flen as usize + extra)[..]] };
                if err.is_some() || !tail_ok || !frag_ok || consumed != stream.len() {
                    t.fail(format!("{} (lazy reader, {}): tokens {:?} (error {:?}, {} of {} bytes consumed)", label, if mode == 0 { "skip" } else { "read_value_into" }, toks, err, consumed, stream.len()));
                }
            }
        } }
    }
}

fn main() {
    let mut t = Tally { cases: 0, bad: 0 };
    let ts = entries::EXPLICIT_VR_LITTLE_ENDIAN.erased();
    let sentinel = Tag(0x0010, 0x0020);
    for strategy in [OddLengthStrategy::Accept, OddLengthStrategy::NextEven, OddLengthStrategy::Fail] {
        for vr in VRS {
            for len in [1u32, 3, 5, 7, 9, 11, 13] {
                t.cases += 1;
                let label = format!("{:?} VR {} declared length {}", strategy, vr.to_string(), len);
                let extra = if strategy == OddLengthStrategy::NextEven { 1 } else { 0 };
                let mut body = vec![b'1'; len as usize];
                body.extend(std::iter::repeat(b' ').take(extra));
                let odd = element(Tag(0x0009, 0x1001), vr, len, &body);
                let sent = element(sentinel, VR::LO, 2, b"ID");
                // item content: odd element + sentinel; item and sequence with defined lengths
                let mut item_content = odd.clone();
                item_content.extend_from_slice(&sent);
                let mut item = vec![0xFE, 0xFF, 0x00, 0xE0];
                item.extend_from_slice(&(item_content.len() as u32).to_le_bytes());
                item.extend_from_slice(&item_content);
                let seq = element(Tag(0x0008, 0x1115), VR::SQ, item.len() as u32, &item);
                let mut stream = odd.clone();
                stream.extend_from_slice(&sent);
                stream.extend_from_slice(&seq);
                stream.extend_from_slice(&sent);
                let mut cur = Cursor::new(&stream[..]);
                let mut options = DataSetReaderOptions::default();
                options.odd_length = strategy;
                options.value_read = ValueReadStrategy::Raw;
                let mut toks: Vec<String> = Vec::new();
                let mut err = None;
                {
                    let reader = match DataSetReader::new_with_ts_options(&mut cur, &ts, options) { Ok(r) => r, Err(e) => { t.fail(format!("{}: no reader: {}", label, e)); continue; } };
                    for tok in reader {
                        match tok {
                            Ok(DataToken::ElementHeader(h)) => toks.push(format!("H{}:{}", h.tag, h.len.0)),
                            Ok(DataToken::PrimitiveValue(v)) => toks.push(format!("V{}", v.calculate_byte_len())),
                            Ok(DataToken::SequenceStart { tag, .. }) => toks.push(format!("S{}", tag)),
                            Ok(DataToken::ItemStart { .. }) => toks.push("I".to_string()),
                            Ok(DataToken::ItemEnd) => toks.push("i".to_string()),
                            Ok(DataToken::SequenceEnd) => toks.push("s".to_string()),
                            Ok(other) => toks.push(format!("?{:?}", other)),
                            Err(e) => { err = Some(e.to_string()); break; }
                        }
                        if toks.len() > 64 { break; }
                    }
                }
                if strategy == OddLengthStrategy::Fail {
                    if err.is_none() || !toks.is_empty() { t.fail(format!("{}: expected an error as the first token, got tokens {:?} error {:?}", label, toks, err)); }
                    continue;
                }
                let vlen = len as usize + extra;
                let hlen = len + extra as u32;
                let want: Vec<String> = vec![
                    format!("H(0009,1001):{}", hlen), format!("V{}", vlen), "H(0010,0020):2".to_string(), "V2".to_string(),
                    "S(0008,1115)".to_string(), "I".to_string(),
                    format!("H(0009,1001):{}", hlen), format!("V{}", vlen), "H(0010,0020):2".to_string(), "V2".to_string(),
                    "i".to_string(), "s".to_string(), "H(0010,0020):2".to_string(), "V2".to_string(),
                ];
                // the header token may report the declared or the sanitized length: compare the structure, not that number
                let strip = |v: &Vec<String>| -> Vec<String> { v.iter().map(|s| if s.starts_with("H(0009") { "H(0009,1001)".to_string() } else { s.clone() }).collect() };
                if err.is_some() || strip(&toks) != strip(&want) {
                    t.fail(format!("{}: tokens {:?} (error {:?}), expected {:?}", label, toks, err, want));
                    continue;
                }
                if cur.position() as usize != stream.len() { t.fail(format!("{}: {} of {} bytes consumed at the end", label, cur.position(), stream.len())); }
                // an ITEM with an odd declared length (only its odd-length element inside): the item's end must be computed from the
                // length the strategy assumes (declared for Accept, declared + 1 for NextEven)
                t.cases += 1;
                let mut item2 = vec![0xFE, 0xFF, 0x00, 0xE0];
                item2.extend_from_slice(&((8 + if short_form(vr) { 0 } else { 4 } + len) as u32).to_le_bytes());
                item2.extend_from_slice(&odd);
                let mut stream2 = vec![0x08, 0x00, 0x15, 0x11, b'S', b'Q', 0, 0, 0xFF, 0xFF, 0xFF, 0xFF];
                stream2.extend_from_slice(&item2);
                stream2.extend_from_slice(&[0xFE, 0xFF, 0xDD, 0xE0, 0, 0, 0, 0]);
                stream2.extend_from_slice(&sent);
                let mut cur2 = Cursor::new(&stream2[..]);
                let mut toks2: Vec<String> = Vec::new();
                let mut err2 = None;
                {
                    let reader = match DataSetReader::new_with_ts_options(&mut cur2, &ts, options) { Ok(r) => r, Err(e) => { t.fail(format!("{}: no reader: {}", label, e)); continue; } };
                    for tok in reader {
                        match tok {
                            Ok(DataToken::ElementHeader(h)) => toks2.push(format!("H{}", h.tag)),
                            Ok(DataToken::PrimitiveValue(v)) => toks2.push(format!("V{}", v.calculate_byte_len())),
                            Ok(DataToken::SequenceStart { tag, .. }) => toks2.push(format!("S{}", tag)),
                            Ok(DataToken::ItemStart { .. }) => toks2.push("I".to_string()),
                            Ok(DataToken::ItemEnd) => toks2.push("i".to_string()),
                            Ok(DataToken::SequenceEnd) => toks2.push("s".to_string()),
                            Ok(other) => toks2.push(format!("?{:?}", other)),
                            Err(e) => { err2 = Some(e.to_string()); break; }
                        }
                        if toks2.len() > 64 { break; }
                    }
                }
                let want2: Vec<String> = vec!["S(0008,1115)".to_string(), "I".to_string(), "H(0009,1001)".to_string(), format!("V{}", vlen), "i".to_string(), "s".to_string(), "H(0010,0020)".to_string(), "V2".to_string()];
                if err2.is_some() || toks2 != want2 || cur2.position() as usize != stream2.len() {
                    t.fail(format!("{} inside an item of odd declared length: tokens {:?} (error {:?}, {} of {} bytes consumed), expected {:?}", label, toks2, err2, cur2.position(), stream2.len(), want2));
                }
            }
        }
    }
    lazy_and_pixel(&mut t);
    println!("EXHAUSTIVE unit=C07.dataset cases={} mismatches={}", t.cases, t.bad);
}
