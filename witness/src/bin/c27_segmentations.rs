//! Exhaustive stand-in for C27 over a fixed stream: three PDUs (A-RELEASE-RQ, P-DATA with 5 bytes,
//! A-ABORT) are written with the real `write_pdu`; the byte stream is handed to the real
//! `read_pdu_from_wire` in EVERY segmentation with at most 3 cut points (each read returns one segment),
//! and the PDUs received by successive calls must be exactly the three PDUs, in order, then end of stream; the same
//! segmentations through the asynchronous `read_pdu_from_wire_async` from a transport that answers "not ready" before every segment.
use bytes::BytesMut;
use dicom_ul::association::{read_pdu_from_wire, read_pdu_from_wire_async};
use dicom_ul::pdu::{write_pdu, AbortRQSource, PDataValue, PDataValueType, Pdu, MAXIMUM_PDU_SIZE};
use std::io::Read;

struct Segmented { data: Vec<u8>, cuts: Vec<usize>, pos: usize }
impl Read for Segmented {
    fn read(&mut self, buf: &mut [u8]) -> std::io::Result<usize> {
        if self.pos >= self.data.len() { return Ok(0); }
        let next = self.cuts.iter().copied().find(|c| *c > self.pos).unwrap_or(self.data.len());
        let n = (next - self.pos).min(buf.len());
        buf[..n].copy_from_slice(&self.data[self.pos..self.pos + n]);
        self.pos += n;
        Ok(n)
    }
}

struct AsyncSegmented { data: Vec<u8>, cuts: Vec<usize>, pos: usize, ready: bool }
impl tokio::io::AsyncRead for AsyncSegmented {
    fn poll_read(mut self: std::pin::Pin<&mut Self>, cx: &mut std::task::Context<'_>, buf: &mut tokio::io::ReadBuf<'_>) -> std::task::Poll<std::io::Result<()>> {
        if self.pos >= self.data.len() { return std::task::Poll::Ready(Ok(())); }
        if !self.ready { self.ready = true; cx.waker().wake_by_ref(); return std::task::Poll::Pending; }
        self.ready = false;
        let next = self.cuts.iter().copied().find(|c| *c > self.pos).unwrap_or(self.data.len());
        let n = (next - self.pos).min(buf.remaining());
        let (a, b) = (self.pos, self.pos + n);
        buf.put_slice(&self.data[a..b]);
        self.pos = b;
        std::task::Poll::Ready(Ok(()))
    }
}

fn main() {
    let pdus = vec![
        Pdu::ReleaseRQ,
        Pdu::PData { data: vec![PDataValue { presentation_context_id: 1, value_type: PDataValueType::Data, is_last: true, data: vec![1, 2, 3, 4, 5] }] },
        Pdu::AbortRQ { source: AbortRQSource::ServiceUser },
    ];
    let mut stream = Vec::new();
    for p in &pdus { write_pdu(&mut stream, p).expect("write"); }
    let n = stream.len();
    let (mut cases, mut bad) = (0u64, 0u64);
    let mut run = |cuts: Vec<usize>| {
        cases += 1;
        let mut r = Segmented { data: stream.clone(), cuts: cuts.clone(), pos: 0 };
        let mut buffer = BytesMut::new();
        let mut got = Vec::new();
        for _ in 0..pdus.len() {
            match read_pdu_from_wire(&mut r, &mut buffer, MAXIMUM_PDU_SIZE, true) { Ok(p) => got.push(p), Err(e) => { got.push(Pdu::Unknown { pdu_type: 0xEE, data: format!("{}", e).into_bytes() }); break; } }
        }
        let tail_ok = got.len() == pdus.len() && read_pdu_from_wire(&mut r, &mut buffer, MAXIMUM_PDU_SIZE, true).is_err() && buffer.is_empty();
        if got != pdus || !tail_ok {
            bad += 1;
            if bad <= 6 {
                let kinds: Vec<String> = got.iter().map(|p| p.short_description().to_string()).collect();
                println!("WITNESS unit=C27.segmentations stream={} bytes, cut points={:?}: received {:?}, expected the three PDUs in order then end of stream", n, cuts, kinds);
            }
        }
    };
    run(vec![]);
    for a in 1..n { run(vec![a]); for b in (a + 1)..n { run(vec![a, b]); for c in (b + 1)..n { run(vec![a, b, c]); } } }
    // the ASYNCHRONOUS receiver on the same segmentations, the transport answering "not ready" before every segment
    let rt = tokio::runtime::Builder::new_current_thread().enable_all().build().expect("runtime");
    let mut run_async = |cuts: Vec<usize>| {
        cases += 1;
        let mut r = AsyncSegmented { data: stream.clone(), cuts: cuts.clone(), pos: 0, ready: false };
        let mut buffer = BytesMut::new();
        let got: Vec<Pdu> = rt.block_on(async {
            let mut got = Vec::new();
            for _ in 0..pdus.len() {
                match tokio::time::timeout(std::time::Duration::from_secs(20), read_pdu_from_wire_async(&mut r, &mut buffer, MAXIMUM_PDU_SIZE, true)).await {
                    Ok(Ok(p)) => got.push(p),
                    Ok(Err(e)) => { got.push(Pdu::Unknown { pdu_type: 0xEE, data: format!("{}", e).into_bytes() }); break; }
                    Err(_) => { got.push(Pdu::Unknown { pdu_type: 0xEF, data: b"timed out".to_vec() }); break; }
                }
            }
            got
        });
        let tail_ok = got.len() == pdus.len() && r.pos == stream.len() && buffer.is_empty();
        if got != pdus || !tail_ok {
            bad += 1;
            if bad <= 6 {
                let kinds: Vec<String> = got.iter().map(|p| if let Pdu::Unknown { pdu_type: 0xEE | 0xEF, data } = p { format!("error: {}", String::from_utf8_lossy(data)) } else { p.short_description().to_string() }).collect();
                println!("WITNESS unit=C27.segmentations asynchronous receiver, stream={} bytes, cut points={:?}: received {:?} ({} bytes left in the buffer), expected the three PDUs in order and nothing left", n, cuts, kinds, buffer.len());
            }
        }
    };
    run_async(vec![]);
    for a in 1..n { run_async(vec![a]); for b in (a + 1)..n { run_async(vec![a, b]); for c in (b + 1)..n { run_async(vec![a, b, c]); } } }
    println!("EXHAUSTIVE unit=C27.segmentations cases={} stream_bytes={} mismatches={}", cases, n, bad);
}
