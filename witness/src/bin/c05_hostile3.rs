//! Native stand-in for the remaining entry points named by C05, on the compiled code (not a deductive result; bounded):
//!  (8) attribute selectors: every string of up to 5 characters over { 0 F ( ) , . [ ] # P a space e-acute } and every
//!      single-character replacement / insertion / deletion in five valid selector texts, through
//!      `DataDictionary::parse_selector` of the standard dictionary;
//!  (9) ranges: every string of up to 6 characters over { 0 1 9 - . + space } and every single-character replacement /
//!      deletion in valid range texts, through parse_date_range / parse_time_range / parse_datetime_range;
//! (10) encapsulated pixel data: small images transcoded by dicom-rs itself into every encapsulated transfer syntax
//!      with an encoder in this build (Encapsulated Uncompressed, JPEG Baseline, Deflated Image Frame Compression),
//!      then: every truncation and every single-byte mutation (to 00, 01, 7F, FF) of every fragment; 17 hostile basic offset
//!      tables (empty, decreasing, equal, huge, off by one, too long) x 4 fragment layouts x 3 frame counts; the image
//!      attributes replaced one at a time by hostile values; the JPEG fragments also under the decoder-only JPEG
//!      transfer syntaxes; a fragment sequence under the transfer syntaxes without a pixel data decoder (frames 0 / 1 / 2 / 5
//!      requested); through PixelDecoder::decode_pixel_data and decode_pixel_data_frame;
//! (11) the deflated data set transfer syntax: every truncation and every single-byte mutation (to 00, 01, FF) of a
//!      complete Deflated Explicit VR Little Endian file, through dicom_object::from_reader, and a sample of them
//!      through open_file (by path, files in a private temporary directory removed afterwards);
//! (12) the file meta group on its own: every truncation and every single-byte mutation (to 00, 01, FF) of an encoded
//!      group (magic code + group) through FileMetaTable::from_reader;
//! (13) every sequence of up to 4 items / delimiters / sequence starts / pixel data starts where no sequence is open, and data sets
//!      that are empty or start at the pixel data, through the lazy reader and through a collector created with an explicit
//!      transfer syntax (reading calls in two orders);
//! (14) DICOM JSON elements with every pair of value fields (Value / InlineBinary / BulkDataURI) in both orders under 13 VR codes,
//!      through from_str and, when that succeeds, JSON serialisation and the text dump.
//! A value or an error — never a panic; the slowest case is reported (a hang would show as the unit's timeout).
use dicom_core::dictionary::DataDictionary;
use dicom_core::value::range::{parse_date_range, parse_datetime_range, parse_time_range};
use dicom_core::value::{PixelFragmentSequence, Value};
use dicom_core::{dicom_value, DataElement, PrimitiveValue, Tag, VR};
use dicom_dictionary_std::StandardDataDictionary;
use dicom_encoding::transfer_syntax::{Codec, TransferSyntaxIndex};
use dicom_object::{FileMetaTable, FileMetaTableBuilder, InMemDicomObject};
use dicom_pixeldata::{PixelDecoder, Transcode};
use dicom_transfer_syntax_registry::TransferSyntaxRegistry;
use std::panic::{catch_unwind, AssertUnwindSafe};
use std::time::{Duration, Instant};

static LAST_PANIC: std::sync::Mutex<String> = std::sync::Mutex::new(String::new());

struct Tally { cases: u64, bad: u64, slowest: Duration, slowest_what: String }
impl Tally {
    fn fail(&mut self, what: String) { self.bad += 1; if self.bad <= 40 { println!("WITNESS unit=C05.hostile3 {}", what); } }
    /// runs one case: a panic is a failure. Wall-clock time is only reported (a declared length of 4 GiB is allocated and zeroed before the
    /// read fails, which takes seconds and much longer on a loaded machine); a real hang shows as the unit's timeout (undecided, never an alarm)
    fn case(&mut self, what: &dyn Fn() -> String, f: &mut dyn FnMut()) {
        self.cases += 1;
        let t0 = Instant::now();
        let r = catch_unwind(AssertUnwindSafe(|| f()));
        let dt = t0.elapsed();
        if dt > self.slowest { self.slowest = dt; self.slowest_what = what(); }
        if r.is_err() { let at = LAST_PANIC.lock().map(|g| g.clone()).unwrap_or_default(); self.fail(format!("panicked at {}: {}", at, what())); }
    }
}

fn strings(alphabet: &[char], max: usize, f: &mut dyn FnMut(&str)) {
    fn rec(alphabet: &[char], cur: &mut String, left: usize, f: &mut dyn FnMut(&str)) {
        f(cur);
        if left == 0 { return; }
        for c in alphabet { cur.push(*c); rec(alphabet, cur, left - 1, f); cur.pop(); }
    }
    rec(alphabet, &mut String::new(), max, f);
}

/// every single-character replacement, insertion and deletion
fn text_mutations(valid: &str, alphabet: &[char], f: &mut dyn FnMut(&str)) {
    let chars: Vec<char> = valid.chars().collect();
    f(valid);
    for i in 0..=chars.len() {
        for c in alphabet {
            if i < chars.len() { let mut m = chars.clone(); m[i] = *c; f(&m.iter().collect::<String>()); }
            let mut m = chars.clone(); m.insert(i, *c); f(&m.iter().collect::<String>());
        }
        if i < chars.len() { let mut m = chars.clone(); m.remove(i); f(&m.iter().collect::<String>()); }
        f(&chars[..i].iter().collect::<String>());
    }
}

fn image(bits: u16, spp: u16, rows: u16, cols: u16, frames: u32) -> InMemDicomObject {
    let n = rows as usize * cols as usize * spp as usize * (bits as usize / 8) * frames as usize;
    let bytes: Vec<u8> = (0..n).map(|i| (i * 7 + 3) as u8).collect();
    let px = if bits == 8 { DataElement::new(Tag(0x7FE0, 0x0010), VR::OB, PrimitiveValue::from(bytes)) }
             else { DataElement::new(Tag(0x7FE0, 0x0010), VR::OW, PrimitiveValue::U16(bytes.chunks(2).map(|c| u16::from_le_bytes([c[0], c[1]])).collect())) };
    InMemDicomObject::from_element_iter([
        DataElement::new(Tag(0x0008, 0x0016), VR::UI, PrimitiveValue::from("1.2.840.10008.5.1.4.1.1.7")),
        DataElement::new(Tag(0x0008, 0x0018), VR::UI, PrimitiveValue::from("2.25.7")),
        DataElement::new(Tag(0x0028, 0x0002), VR::US, dicom_value!(U16, [spp])),
        DataElement::new(Tag(0x0028, 0x0004), VR::CS, PrimitiveValue::from(if spp == 1 { "MONOCHROME2" } else { "RGB" })),
        DataElement::new(Tag(0x0028, 0x0006), VR::US, dicom_value!(U16, [0])),
        DataElement::new(Tag(0x0028, 0x0008), VR::IS, PrimitiveValue::from(frames.to_string())),
        DataElement::new(Tag(0x0028, 0x0010), VR::US, dicom_value!(U16, [rows])),
        DataElement::new(Tag(0x0028, 0x0011), VR::US, dicom_value!(U16, [cols])),
        DataElement::new(Tag(0x0028, 0x0100), VR::US, dicom_value!(U16, [bits])),
        DataElement::new(Tag(0x0028, 0x0101), VR::US, dicom_value!(U16, [bits])),
        DataElement::new(Tag(0x0028, 0x0102), VR::US, dicom_value!(U16, [bits - 1])),
        DataElement::new(Tag(0x0028, 0x0103), VR::US, dicom_value!(U16, [0])),
        px,
    ])
}

fn hex(b: &[u8]) -> String { b.iter().take(120).map(|x| format!("{:02X}", x)).collect::<Vec<_>>().join("") }

fn decode_all(t: &mut Tally, obj: &InMemDicomObject, ts_uid: &str, label: &dyn Fn() -> String) {
    let file = match obj.clone().with_meta(FileMetaTableBuilder::new().transfer_syntax(ts_uid)) { Ok(f) => f, Err(_) => return };
    t.case(&|| format!("decode_pixel_data, {}", label()), &mut || { let _ = file.decode_pixel_data(); });
    t.case(&|| format!("decode_pixel_data_frame(0 / 1), {}", label()), &mut || { let _ = file.decode_pixel_data_frame(0); let _ = file.decode_pixel_data_frame(1); });
}

fn main() {
    std::panic::set_hook(Box::new(|info| {
        let msg = info.payload().downcast_ref::<&str>().map(|s| s.to_string()).or_else(|| info.payload().downcast_ref::<String>().cloned()).unwrap_or_default();
        if let Ok(mut g) = LAST_PANIC.lock() { *g = format!("{} ({})", info.location().map(|l| format!("{}:{}", l.file(), l.line())).unwrap_or_default(), msg.chars().take(160).collect::<String>()); }
    }));
    let full = std::env::args().any(|a| a == "full");
    let mut t = Tally { cases: 0, bad: 0, slowest: Duration::ZERO, slowest_what: String::new() };

    // (8) attribute selectors
    let dict = StandardDataDictionary;
    let sel_alphabet = ['0', 'F', '(', ')', ',', '.', '[', ']', '#', 'P', 'a', ' ', '\u{e9}'];
    strings(&sel_alphabet, if full { 6 } else { 5 }, &mut |s| { t.case(&|| format!("parse_selector({:?})", s), &mut || { let _ = dict.parse_selector(s); }); });
    for valid in ["PatientName", "(0010,0010)", "00100010", "OtherPatientIDsSequence[1].PatientID", "(0040,A730)[2].(0040,A730)[3].ContentSequence", "ReferencedImageSequence.(0008,1155)", "(0009,0020)[4294967295].Rows"] {
        text_mutations(valid, &sel_alphabet, &mut |s| { t.case(&|| format!("parse_selector({:?})", s), &mut || { let _ = dict.parse_selector(s); }); });
    }

    // (9) ranges
    let range_alphabet = ['0', '1', '9', '-', '.', '+', ' '];
    strings(&range_alphabet, 6, &mut |s| {
        t.case(&|| format!("parse_date_range / parse_time_range / parse_datetime_range({:?})", s), &mut || {
            let _ = parse_date_range(s.as_bytes()); let _ = parse_time_range(s.as_bytes()); let _ = parse_datetime_range(s.as_bytes());
        });
    });
    for valid in ["20200101-20211231", "2020-", "-202112", "1030-1145.5", "103059.123456-", "20200101103000.123+0100-20210101", "2020+0100-2021-0500", "20200229235960.999999-1400-20210630+1400", "-20210101103000"] {
        text_mutations(valid, &range_alphabet, &mut |s| {
            t.case(&|| format!("range parsers({:?})", s), &mut || {
                let _ = parse_date_range(s.as_bytes()); let _ = parse_time_range(s.as_bytes()); let _ = parse_datetime_range(s.as_bytes());
            });
        });
    }
    // bytes that are not UTF-8
    for bad in [&[0xFFu8, 0xFE, b'-', b'2'][..], &[b'2', b'0', 0x80, b'-'][..], &[0xC3][..], &[b'-', 0xE9][..]] {
        t.case(&|| format!("range parsers on bytes {}", hex(bad)), &mut || { let _ = parse_date_range(bad); let _ = parse_time_range(bad); let _ = parse_datetime_range(bad); });
    }

    // (10) encapsulated pixel data produced by dicom-rs' own encoders, then damaged
    let mut targets: Vec<(String, String)> = Vec::new();
    for ts in TransferSyntaxRegistry.iter() {
        if matches!(ts.codec(), Codec::EncapsulatedPixelData(Some(_), Some(_))) { targets.push((ts.uid().to_string(), ts.name().to_string())); }
    }
    targets.sort();
    let jpeg_decoder_only = ["1.2.840.10008.1.2.4.51", "1.2.840.10008.1.2.4.57", "1.2.840.10008.1.2.4.70"];
    let hostile_u16: [u16; 8] = [0, 1, 3, 7, 9, 17, 32, 65535];
    let mut images = 0;
    for (uid, name) in &targets {
        let ts = TransferSyntaxRegistry.get(uid).unwrap();
        for (bits, spp, rows, cols, frames) in [(8u16, 1u16, 3u16, 3u16, 1u32), (8, 3, 2, 2, 2), (16, 1, 2, 3, 2)] {
            let mut file = image(bits, spp, rows, cols, frames).with_meta(FileMetaTableBuilder::new().transfer_syntax("1.2.840.10008.1.2.1")).expect("meta");
            match catch_unwind(AssertUnwindSafe(|| file.transcode(ts))) { Ok(Ok(())) => {}, Ok(Err(_)) => continue, Err(_) => { t.fail(format!("transcoding a valid image to {} panicked", name)); continue; } }
            images += 1;
            let base: InMemDicomObject = (*file).clone();
            let seq = match base.element(Tag(0x7FE0, 0x0010)).map(|e| e.value()) { Ok(Value::PixelSequence(s)) => s.clone(), _ => continue };
            let (table, frags) = (seq.offset_table().to_vec(), seq.fragments().to_vec());
            let shape = format!("{} ({}), {} bit x {} samples, {}x{}, {} frames", name, uid, bits, spp, rows, cols, frames);
            decode_all(&mut t, &base, uid, &|| format!("{}, unchanged", shape));
            // damaged fragments
            let with_frags = |fr: Vec<Vec<u8>>, tbl: Vec<u32>| { let mut o = base.clone(); o.put(DataElement::new(Tag(0x7FE0, 0x0010), VR::OB, Value::from(PixelFragmentSequence::new(tbl, fr)))); o };
            for (k, frag) in frags.iter().enumerate() {
                let step = if full || frag.len() <= 200 { 1 } else { 3 };
                for cut in (0..frag.len()).step_by(step) {
                    let mut fr = frags.clone(); fr[k] = frag[..cut].to_vec();
                    let o = with_frags(fr, table.clone());
                    decode_all(&mut t, &o, uid, &|| format!("{}, fragment {} cut to {} of {} bytes", shape, k, cut, frag.len()));
                }
                for i in (0..frag.len()).step_by(step) {
                    for v in [0x00u8, 0x01, 0x7F, 0xFF] {
                        if frag[i] == v { continue; }
                        let mut fr = frags.clone(); fr[k][i] = v;
                        let o = with_frags(fr, table.clone());
                        decode_all(&mut t, &o, uid, &|| format!("{}, fragment {} byte {} = {:02X} (fragment {})", shape, k, i, v, hex(&frags[k])));
                    }
                }
            }
            // structure of the fragment sequence
            for (what, fr, tbl) in [("no fragments", vec![], vec![]), ("an empty fragment only", vec![vec![]], vec![0]), ("an offset table pointing beyond the data", frags.clone(), vec![0, 0xFFFF_FFF0]),
                                    ("an offset table with more entries than fragments", frags.clone(), vec![0, 8, 16, 24, 32]), ("every fragment twice", frags.iter().flat_map(|f| [f.clone(), f.clone()]).collect(), vec![]),
                                    ("fragments split in two", frags.iter().flat_map(|f| [f[..f.len() / 2].to_vec(), f[f.len() / 2..].to_vec()]).collect(), table.clone())] {
                let o = with_frags(fr, tbl);
                decode_all(&mut t, &o, uid, &|| format!("{}, {}", shape, what));
            }
            // hostile offset tables, with fragment counts that make the decoders consult the table (neither 1 nor the number of frames)
            let halves: Vec<Vec<u8>> = frags.iter().flat_map(|f| [f[..f.len() / 2].to_vec(), f[f.len() / 2..].to_vec()]).collect();
            let thirds: Vec<Vec<u8>> = frags.iter().flat_map(|f| [f[..f.len() / 3].to_vec(), f[f.len() / 3..2 * f.len() / 3].to_vec(), f[2 * f.len() / 3..].to_vec()]).collect();
            let plus_one: Vec<Vec<u8>> = frags.iter().cloned().chain([vec![0u8; 4]]).collect();
            let l0 = frags[0].len() as u32;
            for (fname, fr) in [("fragments split in two", &halves), ("fragments split in three", &thirds), ("one fragment more than frames", &plus_one), ("one fragment per frame", &frags)] {
                for tbl in [vec![], vec![0], vec![0, 0], vec![16, 0], vec![l0 + 8, 0], vec![0, 1], vec![0, 7], vec![1, 2], vec![0, l0 + 8, 0], vec![0xFFFF_FFFF, 0], vec![0, 0xFFFF_FFFF], vec![0xFFFF_FFF0, 0xFFFF_FFFF],
                            vec![0, l0 + 8, 2 * (l0 + 8), 3 * (l0 + 8)], vec![8, 4], vec![0, l0 + 7], vec![0, l0 + 9], vec![2, 0, 1]] {
                    for nf in ["1", "2", "3"] {
                        let mut o = with_frags(fr.clone(), tbl.clone());
                        o.put(DataElement::new(Tag(0x0028, 0x0008), VR::IS, PrimitiveValue::from(nf)));
                        decode_all(&mut t, &o, uid, &|| format!("{}, {}, offset table {:?}, number of frames {}", shape, fname, tbl, nf));
                        let file = match o.clone().with_meta(FileMetaTableBuilder::new().transfer_syntax(uid.as_str())) { Ok(f) => f, Err(_) => continue };
                        t.case(&|| format!("decode_pixel_data_frame(2), {}, {}, offset table {:?}, number of frames {}", shape, fname, tbl, nf), &mut || { let _ = file.decode_pixel_data_frame(2); });
                    }
                }
            }
            // hostile image attributes
            for tag in [Tag(0x0028, 0x0002), Tag(0x0028, 0x0006), Tag(0x0028, 0x0010), Tag(0x0028, 0x0011), Tag(0x0028, 0x0100), Tag(0x0028, 0x0101), Tag(0x0028, 0x0102), Tag(0x0028, 0x0103)] {
                for v in hostile_u16 {
                    let mut o = base.clone();
                    o.put(DataElement::new(tag, VR::US, dicom_value!(U16, [v])));
                    decode_all(&mut t, &o, uid, &|| format!("{}, {} = {}", shape, tag, v));
                }
                let mut o = base.clone();
                o.remove_element(tag);
                decode_all(&mut t, &o, uid, &|| format!("{}, {} absent", shape, tag));
            }
            for pi in ["MONOCHROME1", "PALETTE COLOR", "YBR_FULL", "YBR_FULL_422", "RGB", "MONOCHROME2", "", "XYZ"] {
                let mut o = base.clone();
                o.put(DataElement::new(Tag(0x0028, 0x0004), VR::CS, PrimitiveValue::from(pi)));
                decode_all(&mut t, &o, uid, &|| format!("{}, photometric interpretation {:?}", shape, pi));
            }
            for nf in ["0", "3", "1000", "-1", "x", ""] {
                let mut o = base.clone();
                o.put(DataElement::new(Tag(0x0028, 0x0008), VR::IS, PrimitiveValue::from(nf)));
                decode_all(&mut t, &o, uid, &|| format!("{}, number of frames {:?}", shape, nf));
            }
            // the JPEG stream under the transfer syntaxes that only have the decoder
            if uid == "1.2.840.10008.1.2.4.50" {
                for other in jpeg_decoder_only {
                    decode_all(&mut t, &base, other, &|| format!("{} declared as {}", shape, other));
                    for (k, frag) in frags.iter().enumerate() {
                        for cut in (0..frag.len()).step_by(7) {
                            let mut fr = frags.clone(); fr[k] = frag[..cut].to_vec();
                            let o = with_frags(fr, table.clone());
                            decode_all(&mut t, &o, other, &|| format!("{} declared as {}, fragment {} cut to {} bytes", shape, other, k, cut));
                        }
                    }
                }
            }
        }
    }
    if images == 0 { t.fail("no image could be transcoded into an encapsulated transfer syntax in this build".to_string()); }
    // a fragment sequence under a transfer syntax that has NO pixel data decoder (native and deflated data set syntaxes): 1-3 fragments,
    // Number of Frames 1 / 2 / absent, frames 0 / 1 / 2 / 5 requested
    for ts in ["1.2.840.10008.1.2", "1.2.840.10008.1.2.1", "1.2.840.10008.1.2.2", "1.2.840.10008.1.2.1.99"] {
        for nf in [Some("1"), Some("2"), None] { for nfrag in 1..=3usize {
            let mut o = image(8, 1, 2, 2, 1);
            match nf { Some(n) => { o.put(DataElement::new(Tag(0x0028, 0x0008), VR::IS, PrimitiveValue::from(n))); } None => { o.remove_element(Tag(0x0028, 0x0008)); } }
            o.put(DataElement::new(Tag(0x7FE0, 0x0010), VR::OB, Value::from(PixelFragmentSequence::new(vec![], vec![vec![1u8, 2, 3, 4]; nfrag]))));
            let file = match o.with_meta(FileMetaTableBuilder::new().transfer_syntax(ts)) { Ok(f) => f, Err(_) => continue };
            let label = format!("transfer syntax {} (no pixel data decoder) with a sequence of {} fragments, number of frames {:?}", ts, nfrag, nf);
            t.case(&|| format!("decode_pixel_data, {}", label), &mut || { let _ = file.decode_pixel_data(); });
            for frame in [0u32, 1, 2, 5] { t.case(&|| format!("decode_pixel_data_frame({}), {}", frame, label), &mut || { let _ = file.decode_pixel_data_frame(frame); }); }
        } }
    }

    // (11) deflated data set transfer syntax
    let obj = image(8, 1, 2, 3, 1);
    let mut file_bytes = Vec::new();
    match obj.clone().with_meta(FileMetaTableBuilder::new().transfer_syntax("1.2.840.10008.1.2.1.99")) {
        Ok(f) => { if let Err(e) = f.write_all(&mut file_bytes) { t.fail(format!("writing a Deflated Explicit VR Little Endian file failed: {}", e)); } }
        Err(e) => t.fail(format!("file meta for the deflated file: {}", e)),
    }
    if !file_bytes.is_empty() {
        t.case(&|| "from_reader on the unchanged deflated file".to_string(), &mut || { if dicom_object::from_reader(&file_bytes[..]).is_err() { panic!("unchanged file not readable"); } });
        let tmp = std::env::temp_dir().join(format!("c05_hostile3_{}", std::process::id()));
        let _ = std::fs::create_dir_all(&tmp);
        let mut n = 0u32;
        let mut try_file = |t: &mut Tally, m: &[u8], how: String| {
            t.case(&|| format!("from_reader on the deflated file, {}", how), &mut || { let _ = dicom_object::from_reader(m); });
            n += 1;
            if n % 23 == 0 {
                let p = tmp.join("f.dcm");
                if std::fs::write(&p, m).is_ok() { t.case(&|| format!("open_file on the deflated file, {}", how), &mut || { let _ = dicom_object::open_file(&p); }); }
            }
        };
        for cut in 0..file_bytes.len() { try_file(&mut t, &file_bytes[..cut], format!("cut to {} of {} bytes", cut, file_bytes.len())); }
        for i in 0..file_bytes.len() {
            for v in [0x00u8, 0x01, 0xFF] {
                if file_bytes[i] == v { continue; }
                let mut m = file_bytes.clone(); m[i] = v;
                try_file(&mut t, &m, format!("byte {} = {:02X}", i, v));
            }
        }
        let _ = std::fs::remove_dir_all(&tmp);
    }

    // (12) the file meta group on its own
    let meta = FileMetaTableBuilder::new().transfer_syntax("1.2.840.10008.1.2.1").media_storage_sop_class_uid("1.2.840.10008.5.1.4.1.1.7").media_storage_sop_instance_uid("2.25.7")
        .implementation_version_name("X").source_application_entity_title("AE").private_information_creator_uid("2.25.8").private_information(vec![1, 2, 3, 4]).build();
    match meta {
        Ok(meta) => {
            let mut g = b"DICM".to_vec(); // from_reader expects the magic code, write(..) emits the group only
            if let Err(e) = meta.write(&mut g) { t.fail(format!("writing a file meta group failed: {}", e)); }
            t.case(&|| "FileMetaTable::from_reader on the unchanged group".to_string(), &mut || { if FileMetaTable::from_reader(&g[..]).is_err() { panic!("unchanged group not readable"); } });
            for cut in 0..g.len() { t.case(&|| format!("FileMetaTable::from_reader, group cut to {} of {} bytes", cut, g.len()), &mut || { let _ = FileMetaTable::from_reader(&g[..cut]); }); }
            for i in 0..g.len() {
                for v in [0x00u8, 0x01, 0xFF] {
                    if g[i] == v { continue; }
                    let mut m = g.clone(); m[i] = v;
                    t.case(&|| format!("FileMetaTable::from_reader, byte {} = {:02X} in {}", i, v, hex(&g)), &mut || { let _ = FileMetaTable::from_reader(&m[..]); });
                }
            }
        }
        Err(e) => t.fail(format!("building a file meta table failed: {}", e)),
    }
    // (13) delimiters where no sequence is open, through the lazy reader and through the collector created with an explicit
    //      transfer syntax (no preamble, no file meta group); data sets that are empty or start at the pixel data
    {
        use dicom_object::collector::DicomCollector;
        use dicom_parser::dataset::lazy_read::LazyDataSetReader;
        let item = [0xFEu8, 0xFF, 0x00, 0xE0, 0, 0, 0, 0];
        let item_undef = [0xFEu8, 0xFF, 0x00, 0xE0, 0xFF, 0xFF, 0xFF, 0xFF];
        let item_delim = [0xFEu8, 0xFF, 0x0D, 0xE0, 0, 0, 0, 0];
        let seq_delim = [0xFEu8, 0xFF, 0xDD, 0xE0, 0, 0, 0, 0];
        let sq_undef = [0x08u8, 0x00, 0x40, 0x11, b'S', b'Q', 0, 0, 0xFF, 0xFF, 0xFF, 0xFF];
        let native_px = [0xE0u8, 0x7F, 0x10, 0x00, b'O', b'W', 0, 0, 4, 0, 0, 0, 1, 2, 3, 4];
        let encaps_px = [0xE0u8, 0x7F, 0x10, 0x00, b'O', b'B', 0, 0, 0xFF, 0xFF, 0xFF, 0xFF];
        let pieces: [(&str, &[u8]); 6] = [("item", &item), ("item of undefined length", &item_undef), ("item delimiter", &item_delim), ("sequence delimiter", &seq_delim), ("sequence of undefined length", &sq_undef), ("start of encapsulated pixel data", &encaps_px)];
        let mut streams: Vec<(String, Vec<u8>)> = vec![("an empty data set".to_string(), vec![]), ("a data set that starts at native pixel data".to_string(), native_px.to_vec()), ("a data set that starts at encapsulated pixel data and ends".to_string(), encaps_px.to_vec())];
        // every sequence of up to 4 of the pieces
        fn rec(pieces: &[(&str, &[u8])], cur: &mut Vec<usize>, left: usize, out: &mut Vec<(String, Vec<u8>)>) {
            if !cur.is_empty() { out.push((cur.iter().map(|i| pieces[*i].0).collect::<Vec<_>>().join(", "), cur.iter().flat_map(|i| pieces[*i].1.iter().copied()).collect())); }
            if left == 0 { return; }
            for i in 0..pieces.len() { cur.push(i); rec(pieces, cur, left - 1, out); cur.pop(); }
        }
        rec(&pieces, &mut Vec::new(), 4, &mut streams);
        let ts = TransferSyntaxRegistry.get("1.2.840.10008.1.2.1").unwrap();
        for (what, bytes) in &streams {
            t.case(&|| format!("LazyDataSetReader on [{}]", what), &mut || {
                if let Ok(mut r) = LazyDataSetReader::new_with_ts(std::io::Cursor::new(&bytes[..]), ts) {
                    for _ in 0..64 { match r.advance() { Some(Ok(tok)) => { if tok.skip().is_err() { break; } } _ => break } }
                }
            });
            t.case(&|| format!("DicomCollector::new_with_ts on [{}]", what), &mut || {
                let mut c = DicomCollector::new_with_ts(std::io::BufReader::new(std::io::Cursor::new(&bytes[..])), "1.2.840.10008.1.2.1");
                let mut part = InMemDicomObject::new_empty();
                let _ = c.read_dataset_up_to_pixeldata(&mut part);
                let mut table = Vec::new();
                let _ = c.read_basic_offset_table(&mut table);
                let mut frag = Vec::new();
                for _ in 0..4 { if !matches!(c.read_next_fragment(&mut frag), Ok(Some(_))) { break; } }
                let mut rest = InMemDicomObject::new_empty();
                let _ = c.read_dataset_to_end(&mut rest);
            });
            t.case(&|| format!("DicomCollector::new_with_ts, fragments first, on [{}]", what), &mut || {
                let mut c = DicomCollector::new_with_ts(std::io::BufReader::new(std::io::Cursor::new(&bytes[..])), "1.2.840.10008.1.2.1");
                let mut frag = Vec::new();
                let _ = c.read_next_fragment(&mut frag);
                let mut table = Vec::new();
                let _ = c.read_basic_offset_table(&mut table);
                let _ = c.read_file_meta();
                let _ = c.read_preamble();
            });
        }
    }
    // (14) DICOM JSON: the value fields of an element in every order and combination, under several VRs
    {
        let fields = ["\"Value\":[1]", "\"Value\":[\"A\"]", "\"Value\":[]", "\"Value\":[{}]", "\"InlineBinary\":\"AAAA\"", "\"InlineBinary\":\"AA==\"", "\"BulkDataURI\":\"http://x/y\""];
        for vr in ["OB", "OW", "UN", "SQ", "LO", "US", "PN", "AT", "DS", "UI", "FD", "OV", "ZZ"] {
            for a in fields { for b in fields { for vr_first in [true, false] {
                let text = if vr_first { format!("{{\"00081140\":{{\"vr\":\"{}\",{},{}}}}}", vr, a, b) } else { format!("{{\"00081140\":{{{},{},\"vr\":\"{}\"}}}}", a, b, vr) };
                t.case(&|| format!("dicom_json::from_str (then to_string and dump) on {}", text), &mut || {
                    if let Ok(obj) = dicom_json::from_str::<InMemDicomObject>(&text) {
                        let _ = dicom_json::to_string(&obj);
                        let mut sink = Vec::new();
                        let _ = dicom_dump::DumpOptions::new().dump_object_to(&mut sink, &obj);
                    }
                });
            } } }
            for a in fields {
                let text = format!("{{\"00081140\":{{\"vr\":\"{}\",{}}}}}", vr, a);
                t.case(&|| format!("dicom_json::from_str (then to_string and dump) on {}", text), &mut || {
                    if let Ok(obj) = dicom_json::from_str::<InMemDicomObject>(&text) {
                        let _ = dicom_json::to_string(&obj);
                        let mut sink = Vec::new();
                        let _ = dicom_dump::DumpOptions::new().dump_object_to(&mut sink, &obj);
                    }
                });
            }
        }
    }
    println!("NOTE unit=C05.hostile3 slowest case {:?}: {}", t.slowest, t.slowest_what);
    println!("EXHAUSTIVE unit=C05.hostile3 cases={} mismatches={}", t.cases, t.bad);
}
