"""rsx — a small comment/string-aware locator for Rust items.

Used by both engines:
  * engine V cuts the *text* of named functions out of /repo on every run;
  * engine K records the SHA-256 of the text of every function under contract.

Nothing here interprets Rust beyond tokens needed for brace matching:
line comments, nested block comments, string / raw-string / byte-string
literals, char literals vs. lifetimes.
"""
import hashlib
import re


class LostAnchor(Exception):
    """The item a contract is anchored on was not found (or found twice)."""


def mask(src: str) -> str:
    """Return `src` with comments, string and char literal *contents* replaced by
    spaces (newlines kept), so that braces and keywords can be matched safely.
    The result has the same length as the input."""
    out = list(src)
    i, n = 0, len(src)

    def blank(a, b):
        for k in range(a, b):
            if out[k] != "\n":
                out[k] = " "

    while i < n:
        c = src[i]
        if c == "/" and i + 1 < n and src[i + 1] == "/":
            j = src.find("\n", i)
            j = n if j < 0 else j
            blank(i, j)
            i = j
        elif c == "/" and i + 1 < n and src[i + 1] == "*":
            depth, j = 1, i + 2
            while j < n and depth:
                if src.startswith("/*", j):
                    depth += 1
                    j += 2
                elif src.startswith("*/", j):
                    depth -= 1
                    j += 2
                else:
                    j += 1
            blank(i, j)
            i = j
        elif c == '"' or (c in "br" and re.match(r'(b?r#*"|b")', src[i:i + 8])
                          and (i == 0 or not (src[i - 1].isalnum() or src[i - 1] == "_"))):
            m = re.match(r'(b?)(r(#*))?"', src[i:])
            if not m:
                i += 1
                continue
            start = i + m.end()
            if m.group(2):  # raw string
                close = '"' + m.group(3)
                j = src.find(close, start)
                j = n if j < 0 else j
                blank(start, j)
                i = j + len(close)
            else:
                j = start
                while j < n and src[j] != '"':
                    j += 2 if src[j] == "\\" else 1
                blank(start, min(j, n))
                i = j + 1
        elif c == "'":
            # char literal or lifetime
            m = re.match(r"'(\\.[^']*|[^\\'])'", src[i:])
            if m:
                blank(i + 1, i + m.end() - 1)
                i += m.end()
            else:
                i += 1
        else:
            i += 1
    return "".join(out)


def match_brace(masked: str, open_idx: int) -> int:
    """Index of the brace closing the one at open_idx."""
    assert masked[open_idx] == "{"
    depth = 0
    for k in range(open_idx, len(masked)):
        ch = masked[k]
        if ch == "{":
            depth += 1
        elif ch == "}":
            depth -= 1
            if depth == 0:
                return k
    raise LostAnchor("unbalanced braces")


def _block_after(masked: str, start: int):
    """From a header start, find the '{' that opens its block and the closing index.
    Stops at ';' (declaration without body)."""
    k = start
    depth_par = 0
    while k < len(masked):
        ch = masked[k]
        if ch in "([":
            depth_par += 1
        elif ch in ")]":
            depth_par -= 1
        elif ch == "{" and depth_par == 0:
            return k, match_brace(masked, k)
        elif ch == ";" and depth_par == 0:
            return None
        k += 1
    return None


def find_ctx(src: str, masked: str, ctx_regex: str):
    """Return (start, end) spans of blocks whose header matches ctx_regex."""
    spans = []
    for m in re.finditer(ctx_regex, masked):
        blk = _block_after(masked, m.start())
        if blk:
            spans.append((blk[0], blk[1]))
    return spans


def find_fn(src: str, name: str, ctx: str = None, nth: int = None):
    """Locate `fn name` (optionally inside a block whose header matches regex
    `ctx`). Returns dict(start, sig_end, body_open, end, text, line).
    `start` is the beginning of the line holding the `fn` keyword's qualifiers
    (pub/async/const/unsafe), attributes and doc comments excluded."""
    masked = mask(src)
    spans = [(0, len(src))]
    if ctx:
        spans = find_ctx(src, masked, ctx)
        if not spans:
            raise LostAnchor(f"context /{ctx}/ not found")
    hits = []
    pat = re.compile(r"\bfn\s+" + re.escape(name) + r"\b")
    for (a, b) in spans:
        for m in pat.finditer(masked, a, b):
            blk = _block_after(masked, m.start())
            if not blk:
                continue  # declaration without body (trait method signature)
            # qualifiers before `fn` on the same line
            ls = masked.rfind("\n", 0, m.start()) + 1
            prefix = masked[ls:m.start()]
            if prefix.strip() and not re.fullmatch(r"\s*((pub(\s*\([^)]*\))?|async|const|unsafe|default)\s+)*", prefix):
                start = m.start()
            else:
                start = ls
            hits.append(dict(start=start, fn_kw=m.start(), body_open=blk[0], end=blk[1] + 1,
                             text=src[start:blk[1] + 1], line=src.count("\n", 0, m.start()) + 1))
    # de-duplicate (nested ctx spans may overlap)
    uniq = {h["fn_kw"]: h for h in hits}
    hits = [uniq[k] for k in sorted(uniq)]
    if nth is not None:
        if nth >= len(hits):
            raise LostAnchor(f"fn {name}: occurrence {nth} not found (ctx={ctx})")
        return hits[nth]
    if not hits:
        raise LostAnchor(f"fn {name} not found (ctx={ctx})")
    if len(hits) > 1:
        raise LostAnchor(f"fn {name} found {len(hits)} times (ctx={ctx}); anchor ambiguous")
    return hits[0]


def find_const(src: str, name: str, nth: int = None):
    """Text of `[pub[(crate)]] const NAME: T = expr;` (unique, or the nth one)."""
    masked = mask(src)
    ms = list(re.finditer(r"^[ \t]*(pub(\s*\([^)]*\))?\s+)?const\s+" + re.escape(name) + r"\s*:", masked, re.M))
    if nth is not None and nth < len(ms):
        ms = [ms[nth]]
    if len(ms) != 1:
        raise LostAnchor(f"const {name}: found {len(ms)} definitions")
    a = ms[0].start()
    b = masked.index(";", a) + 1
    return dict(text=src[a:b], line=src.count("\n", 0, a) + 1)


def find_struct(src: str, name: str):
    """Text of `[pub] struct|enum NAME[<..>] [where ..] { .. }` (must be unique)."""
    masked = mask(src)
    ms = list(re.finditer(r"^[ \t]*(pub(\s*\([^)]*\))?\s+)?(struct|enum)\s+" + re.escape(name) + r"\b", masked, re.M))
    if len(ms) != 1:
        raise LostAnchor(f"struct {name}: found {len(ms)} definitions")
    a = ms[0].start()
    blk = _block_after(masked, a)
    if not blk:
        raise LostAnchor(f"struct {name}: no braced body")
    return dict(text=src[a:blk[1] + 1], line=src.count("\n", 0, a) + 1)


def sha(text: str) -> str:
    return hashlib.sha256(text.encode()).hexdigest()


def fn_fingerprint(path: str, name: str, ctx: str = None, nth: int = None):
    src = open(path, encoding="utf-8").read()
    h = find_fn(src, name, ctx, nth)
    return dict(file=path, fn=name, ctx=ctx, line=h["line"], sha256=sha(h["text"]), bytes=len(h["text"]))


if __name__ == "__main__":
    import sys
    p, nm = sys.argv[1], sys.argv[2]
    cx = sys.argv[3] if len(sys.argv) > 3 else None
    h = find_fn(open(p).read(), nm, cx)
    print(h["text"])
