"""vextract — build a Verus input file from the *real* function text in /repo.

A unit template (`/verif/contracts/<unit>.vrs`) is a Verus source file in which
each function under contract is represented by a directive block

    /*@fn
    @file ul/src/association/pdata.rs
    @fn dispatch_pdu
    @ctx impl<W> PDataWriter<W>          (regex on the enclosing block header; optional)
    @nth 0                                (optional, when several match)
    @header pub                           (optional: replaces the qualifiers before `fn`)
    @ret r                                (names the return value: `-> T` => `-> (r: T)`)
    @spec
        requires ..., ensures ...         (inserted between signature and body)
    @loop 0
        invariant ..., decreases ...      (inserted before the body of the n-th loop)
    @proof after /regex/
        proof { ... }  | assert(...);     (ghost-only text inserted after the first line matching regex)
    @rewrite /regex/ => replacement       (unit-specific token rewrite; listed in evidence)
    @*/

which this tool replaces, on every run, by the function text cut out of /repo's
working tree, after applying the closed list of global rewrites (GLOBAL_REWRITES,
DESIGN.md 3.2) and the declared drops. Everything outside directive blocks is the
unit's prelude: spec functions, trusted shims, lemmas.

Errors raise rsx.LostAnchor (=> exit 2 / INCONCLUSIVE, never an alarm).
"""
import os
import re
import sys

sys.path.insert(0, os.path.dirname(os.path.abspath(__file__)))
import rsx  # noqa: E402

REPO = os.environ.get("VERIF_REPO_OVERRIDE", "/repo")  # override: development aid for trying mutations on a scratch copy

# (name, regex, replacement, reason). Applied to the extracted text only.
GLOBAL_REWRITES = [
    ("to_be_bytes", r"(\b[A-Za-z_][A-Za-z0-9_\.]*)\.to_be_bytes\(\)", r"to_be_bytes_shim(\1)",
     "std integer to_be_bytes has an unnameable return type in Verus; shim spec = big-endian digits"),
    ("to_le_bytes", r"(\b[A-Za-z_][A-Za-z0-9_\.]*)\.to_le_bytes\(\)", r"to_le_bytes_shim(\1)",
     "as above, little-endian"),
    ("snafu_context_struct", r"\.context\(\s*[A-Za-z_][A-Za-z0-9_:]*Snafu\s*\{[^{}]*\}\s*,?\s*\)", r".context_()",
     "snafu context: identity on Ok, opaque error on Err; error content dropped"),
    ("snafu_context", r"\.context\(\s*[A-Za-z_][A-Za-z0-9_:]*Snafu\s*\)", r".context_()",
     "snafu context: identity on Ok, opaque error on Err; error content dropped"),
    ("snafu_fail", r"\b[A-Za-z_][A-Za-z0-9_:]*Snafu\s*(\{[^{}]*\})?\s*\.fail\(\)", r"Err(opaque_error())",
     "snafu fail(): same control flow, error content dropped"),
    ("snafu_ensure", r"(?s)\bensure!\(\s*(.*?),\s*[A-Za-z_][A-Za-z0-9_:]*Snafu\s*(?:\{[^{}]*\})?\s*,?\s*\);",
     r"if !(\1) { return Err(opaque_error()); }",
     "snafu ensure!(cond, ctx): same control flow (return Err unless cond), error content dropped"),
    ("io_copy_take_sink", r"(?s)std::io::copy\(\s*&mut ([\w\.]+)\.by_ref\(\)\.take\(([^;]*?)\),\s*&mut std::io::sink\(\),?\s*\)",
     r"\1.copy_take(\2)",
     "io::copy(&mut r.by_ref().take(n), &mut sink()): shim consuming at most n bytes and returning the count"),
    ("io_copy_take_out", r"(?s)std::io::copy\(\s*&mut ([\w\.]+)\.by_ref\(\)\.take\(([^;]*?)\),\s*&mut out,?\s*\)",
     r"\1.copy_take(\2)",
     "io::copy(&mut r.by_ref().take(n), &mut out): as above; the destination's content is not modelled"),
]

DROP_STMT = [
    ("debug_assert", r"^[ \t]*debug_assert(_eq|_ne)?!\s*\((?:[^;]|\n)*?\);[ \t]*\n",
     "debug assertions are not part of release semantics; dropped (listed)"),
    ("tracing", r"^[ \t]*(tracing::)?(trace|debug|info|warn|error)!\s*\((?:[^;]|\n)*?\);[ \t]*\n",
     "tracing side effects dropped"),
    ("attr", r"^[ \t]*#\[(inline|must_use|allow|deprecated|doc)[^\]]*\][ \t]*\n", "attributes dropped"),
    ("doc", r"^[ \t]*///[^\n]*\n", "doc comments dropped"),
]


class BodyAnchorLost(rsx.LostAnchor):
    """The function was found but a rewrite / loop / proof anchor inside it was not: the function can
    still be represented by its contract (stub) so that the rest of the unit is verified."""


class Directive:
    def __init__(self):
        self.file = self.fn = self.ctx = self.header = self.ret = None
        self.nth = None
        self.spec = ""
        self.loops = {}
        self.proofs = []     # (regex, text, occurrence)
        self.rewrites = []   # (regex, repl)
        self.body_replace = None
        self.cut = None      # (regex, tail_text)


def parse_directive(text):
    """Directive lines start with `@key` in column 0; the lines that follow a
    block key (@spec, @loop N, @proof after [#k] /regex/) belong to it."""
    d = Directive()
    key, buf = None, []

    def flush():
        nonlocal key, buf
        if key is None:
            return
        val = "\n".join(buf)
        if key == "spec":
            d.spec = val
        elif key.startswith("loop "):
            d.loops[int(key.split()[1])] = val
        elif key.startswith("cut after "):
            m = re.match(r"cut after /(.*)/$", key)
            d.cut = (m.group(1), val)
        elif key.startswith("proof after "):
            m = re.match(r"proof after (?:#(\d+) )?/(.*)/$", key)
            if not m:
                raise ValueError(f"vextract: bad proof anchor: {key!r}")
            d.proofs.append((m.group(2), val, int(m.group(1) or 0)))
        key, buf = None, []

    for ln in text.splitlines():
        if ln.startswith("@"):
            flush()
            m = re.match(r"^@(file|fn|ctx|nth|header|ret)\s+(.*?)\s*$", ln)
            if m:
                k, v = m.group(1), m.group(2)
                if k == "nth":
                    d.nth = int(v)
                else:
                    setattr(d, k, v)
                continue
            if re.match(r"^@header\s*$", ln):
                d.header = ""
                continue
            m = re.match(r"^@rewrite(\??) /(.*)/ =>\s?(.*)$", ln)
            if m:
                d.rewrites.append((m.group(2), m.group(3), m.group(1) == "?"))
                continue
            m = re.match(r"^@(spec|loop \d+|proof after (?:#\d+ )?/.*/|cut after /.*/)\s*$", ln)
            if m:
                key = m.group(1)
                continue
            raise ValueError(f"vextract: cannot parse directive line: {ln!r}")
        if key is not None:
            buf.append(ln)
        elif ln.strip():
            raise ValueError(f"vextract: stray line in directive: {ln!r}")
    flush()
    if not d.file or not d.fn:
        raise ValueError("vextract: directive needs @file and @fn")
    return d


_LOOP_RE = re.compile(r"\b(for\s+[^;{}]*?\s+in\s+[^;{}]*?|while\s+[^;{}]*?|loop)\s*\{")


def insert_loops(text, loops):
    if not loops:
        return text
    masked = rsx.mask(text)
    heads = [m for m in _LOOP_RE.finditer(masked)]
    out, last = [], 0
    for n in sorted(loops):
        if n >= len(heads):
            raise BodyAnchorLost(f"loop {n} not found (function has {len(heads)} loops)")
    for n, m in enumerate(heads):
        if n in loops:
            brace = m.end() - 1
            out.append(text[last:brace])
            out.append("\n" + loops[n] + "\n")
            last = brace
    out.append(text[last:])
    return "".join(out)


def expand_fn(d: Directive, stats):
    """Expand one directive; if only anchors *inside* the body are lost, fall back to a stub
    (signature + contract, `external_body`) and record the function as not verified."""
    try:
        return expand_fn_real(d, stats, stub=False)
    except BodyAnchorLost as e:
        relaxed = Directive()
        relaxed.__dict__.update(d.__dict__)
        relaxed.loops, relaxed.proofs = {}, []
        relaxed.rewrites = [(rx, repl, True) for rx, repl, _ in d.rewrites]
        out = expand_fn_real(relaxed, stats, stub=True)
        stats[-1]["stubbed"] = str(e)
        return out


def expand_fn_real(d: Directive, stats, stub):
    path = os.path.join(REPO, d.file)
    if not os.path.exists(path):
        raise rsx.LostAnchor(f"{d.file} does not exist")
    src = open(path, encoding="utf-8").read()
    h = rsx.find_fn(src, d.fn, d.ctx, d.nth)
    raw = h["text"]
    info = dict(file=d.file, fn=d.fn, ctx=d.ctx, line=h["line"], sha256=rsx.sha(raw), bytes=len(raw),
                rewrites={}, drops={})
    text = raw
    # drops
    for name, rx, _why in DROP_STMT:
        text, n = re.subn(rx, "", text, flags=re.M)
        if n:
            info["drops"][name] = n
    # strip line comments inside the function (kept out of the verified text)
    masked = rsx.mask(text)
    text2 = []
    for a, b in zip(text.split("\n"), masked.split("\n")):
        # cut trailing comment: masked line has spaces where the comment was
        cut = len(b.rstrip())
        if "//" in a[cut:]:
            a = a[:cut]
        text2.append(a)
    text = "\n".join(text2)
    # global rewrites
    for name, rx, repl, _why in GLOBAL_REWRITES:
        text, n = re.subn(rx, repl, text)
        if n:
            info["rewrites"][name] = n
    for rx, repl, optional in d.rewrites:
        text, n = re.subn(rx, repl, text)
        if n == 0 and not optional:
            raise BodyAnchorLost(f"{d.fn}: declared rewrite /{rx}/ matched nothing")
        if n:
            info["rewrites"]["unit:" + rx] = n
    # split signature / body
    masked = rsx.mask(text)
    kw = re.search(r"\bfn\s+" + re.escape(d.fn) + r"\b", masked)
    blk = rsx._block_after(masked, kw.start())
    sig, body = text[:blk[0]], text[blk[0]:]
    sig = sig[kw.start():] if d.header is not None else sig
    if d.header is not None:
        sig = (d.header + " " if d.header else "") + sig
    # where-clause must come after the return type but before requires: keep as is.
    if d.ret:
        # name the return value
        m = re.search(r"\)\s*->\s*", rsx.mask(sig))
        if not m:
            raise rsx.LostAnchor(f"{d.fn}: no return type to name")
        # return type extends to `where` or end of signature
        rest = sig[m.end():]
        mw = re.search(r"\bwhere\b", rsx.mask(rest))
        rt_end = mw.start() if mw else len(rest)
        rt = rest[:rt_end].strip()
        sig = sig[:m.end()] + f"({d.ret}: {rt})\n" + ("    " + rest[rt_end:] if mw else "")
    # declared cut: keep the body up to (and including) the line matching the regex, replace the rest
    if d.cut:
        mc = re.search(d.cut[0], body, re.M)
        if not mc:
            raise BodyAnchorLost(f"{d.fn}: cut anchor /{d.cut[0]}/ not found")
        eol = body.find("\n", mc.end())
        dropped = body[eol + 1:]
        info["cut"] = dict(after=d.cut[0], dropped_lines=dropped.count("\n"))
        body = body[:eol + 1] + d.cut[1] + "\n}\n"
    # loops & proofs in body
    body = insert_loops(body, d.loops)
    # ghost insertions: all anchors are resolved on the body *before* any insertion
    ins = []
    for rx, ptxt, occ in d.proofs:
        ms = list(re.finditer(rx, body, re.M))
        if len(ms) <= occ:
            raise BodyAnchorLost(f"{d.fn}: proof anchor /{rx}/ #{occ} not found")
        m = ms[occ]
        eol = body.find("\n", m.end() - 1 if m.group(0).endswith("\n") else m.end())
        eol = len(body) if eol < 0 else eol
        if not re.match(r"\s*(proof\s*\{|assert\b|assert\(|let ghost\b|broadcast use)", ptxt):
            raise ValueError(f"{d.fn}: proof insertion must be ghost code (proof {{..}} / assert / let ghost)")
        ins.append((eol + 1, ptxt))
    for pos, ptxt in sorted(ins, key=lambda x: -x[0]):
        body = body[:pos] + ptxt + "\n" + body[pos:]
    if stub:
        out = "#[verifier::external_body]\n" + sig.rstrip() + "\n" + (d.spec.rstrip() + "\n" if d.spec.strip() else "") + "{ unimplemented!() }\n"
    else:
        out = sig.rstrip() + "\n" + (d.spec.rstrip() + "\n" if d.spec.strip() else "") + body
    # constants of the same source file that the text refers to: extracted too (see build())
    info["auto_consts"] = collect_consts(src, out)
    stats.append(info)
    return out


def collect_consts(src, text, depth=0):
    """SCREAMING_CASE names used in `text` that are `const` items of the source file -> their text
    (followed transitively), so that a refactoring which names a literal does not lose the function."""
    found = {}
    for name in sorted(set(re.findall(r"\b[A-Z][A-Z0-9_]{2,}\b", rsx.mask(text)))):
        try:
            h = rsx.find_const(src, name)
        except rsx.LostAnchor:
            continue
        ctext = re.sub(r"^\s*(pub(\s*\([^)]*\))?\s+)?const", "pub const", h["text"])
        found[name] = ctext
        if depth < 3:
            for k, v in collect_consts(src, ctext.split("=", 1)[1] if "=" in ctext else "", depth + 1).items():
                found.setdefault(k, v)
    return found


def expand_item(kind, text, stats):
    kv = {}
    item_rewrites = []
    for ln in text.splitlines():
        m = re.match(r"^@(file|name|nth)\s+(.*?)\s*$", ln)
        mr = re.match(r"^@rewrite /(.*)/ =>\s?(.*)$", ln)
        if m:
            kv[m.group(1)] = m.group(2)
        elif mr:
            item_rewrites.append((mr.group(1), mr.group(2)))
        elif ln.strip():
            raise ValueError(f"vextract: bad {kind} directive line {ln!r}")
    path = os.path.join(REPO, kv["file"])
    if not os.path.exists(path):
        raise rsx.LostAnchor(f"{kv['file']} does not exist")
    src = open(path, encoding="utf-8").read()
    if kind == "const":
        h = rsx.find_const(src, kv["name"], int(kv["nth"]) if "nth" in kv else None)
        out = re.sub(r"^\s*(pub(\s*\([^)]*\))?\s+)?const", "pub const", h["text"])
    else:
        h = rsx.find_struct(src, kv["name"])
        t = h["text"]
        # drop docs/attributes; make the item and its fields visible to spec functions
        t = re.sub(r"^[ \t]*///[^\n]*\n", "", t, flags=re.M)
        t = re.sub(r"^[ \t]*#\[[^\]]*\][ \t]*\n", "", t, flags=re.M)
        # keep the derives Verus understands (looked up just above the item in the source)
        pre = src[max(0, src.rfind("\n\n", 0, src.find(h["text"]))):src.find(h["text"])]
        md = re.search(r"#\[derive\(([^)]*)\)\]", pre)
        if md:
            keep = [x.strip() for x in md.group(1).split(",") if x.strip() in ("Clone", "Copy", "PartialEq", "Eq")]
            if keep:
                t = "#[derive(" + ", ".join(keep) + ")]\n" + t.lstrip("\n")
        t = re.sub(r"^[ \t]*(pub(\s*\([^)]*\))?\s+)?(struct|enum)\b", r"pub \3", t, count=1, flags=re.M)
        t = re.sub(r"^[ \t]*//[^\n]*\n", "", t, flags=re.M)
        t = re.sub(r"^([ \t]+)(?:pub(?:\s*\([^)]*\))?\s+)?([a-z_][A-Za-z0-9_]*\s*:)", r"\1pub \2", t, flags=re.M)
        out = t
    rw = {"visibility->pub": 1}
    for rx, repl in item_rewrites:
        out, n = re.subn(rx, repl, out)
        if n == 0:
            raise rsx.LostAnchor(f"{kind} {kv['name']}: declared rewrite /{rx}/ matched nothing")
        rw["unit:" + rx] = n
    stats.append(dict(file=kv["file"], item=kind + " " + kv["name"], line=h["line"], sha256=rsx.sha(h["text"]),
                      bytes=len(h["text"]), rewrites=rw, drops={}))
    return out


def build(template_path, out_path):
    """Expand a unit template. Returns list of per-function info dicts."""
    t = open(template_path, encoding="utf-8").read()
    stats = []

    def repl(m):
        d = parse_directive(m.group(1))
        return expand_fn(d, stats)

    out = re.sub(r"/\*@fn\n(.*?)@\*/", repl, t, flags=re.S)
    out = re.sub(r"/\*@(const|struct)\n(.*?)@\*/", lambda m: expand_item(m.group(1), m.group(2), stats), out, flags=re.S)
    # constants referred to by the extracted functions and not already present in the unit
    auto = {}
    for st in stats:
        for k, v in (st.get("auto_consts") or {}).items():
            auto.setdefault(k, v)
    missing = [v for k, v in sorted(auto.items()) if not re.search(r"\bconst\s+" + re.escape(k) + r"\b", out)]
    if missing:
        m = re.search(r"^verus!\s*\{[ \t]*\n", out, re.M)
        if m:
            out = out[:m.end()] + "// constants extracted from the source file (referred to by the functions below)\n" + "\n".join(missing) + "\n" + out[m.end():]
    os.makedirs(os.path.dirname(out_path), exist_ok=True)
    with open(out_path, "w") as f:
        f.write(out)
    return stats


def scan_assumptions(path):
    """Mechanical scan for unproved assumptions in a generated unit."""
    txt = open(path, encoding="utf-8").read()
    m = rsx.mask(txt)
    found = []
    for kw in ("external_body", "assume_specification", "admit", "assume", "external_type_specification",
               "external_fn_specification", "verifier::external", "axiom"):
        for mm in re.finditer(r"\b" + re.escape(kw) + r"\b", m):
            line = txt.count("\n", 0, mm.start()) + 1
            ctxline = txt.splitlines()[line - 1].strip()
            # name the item that follows
            nm = re.search(r"\b(fn|struct|trait|impl)\s+([A-Za-z_][A-Za-z0-9_]*)", m[mm.start():mm.start() + 400])
            found.append(f"{kw}@{line}: {nm.group(2) if nm else ctxline}")
    return found


if __name__ == "__main__":
    st = build(sys.argv[1], sys.argv[2])
    for s in st:
        print(s)
