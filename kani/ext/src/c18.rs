//! C18 — `Fragments::new`, `Fragments::len`, `From<Vec<Fragments>> for PixelFragmentSequence`.
//! BOUNDED units: data lengths and fragment sizes are concrete (one harness per
//! combination), byte contents are symbolic. Symbolic lengths are intractable
//! (DESIGN.md section 2, rule 2).
use dicom_core::value::fragments::Fragments;
use dicom_core::value::{InMemFragment, PixelFragmentSequence};

fn sym_vec(n: usize) -> Vec<u8> {
    let mut v = Vec::with_capacity(n);
    let mut i = 0;
    while i < n {
        v.push(kani::any::<u8>());
        i += 1;
    }
    v
}

/// Contract of a single frame: every fragment has the same even length, the
/// fragments concatenate to the data followed by zero padding (less than one
/// fragment of padding), the offset table is [0].
fn check_single(n: usize, fs: u32) {
    let data = sym_vec(n);
    let copy = data.clone();
    let seq: PixelFragmentSequence<InMemFragment> = vec![Fragments::new(data, fs)].into();
    let frags = seq.fragments();
    assert!(seq.offset_table().len() == 1 && seq.offset_table()[0] == 0, "C18.frag: one frame => offset table [0]");
    let mut total = 0usize;
    let mut k = 0usize;
    let mut f = 0;
    while f < frags.len() {
        assert!(frags[f].len() % 2 == 0, "C18.frag: every fragment has even length");
        assert!(frags[f].len() == frags[0].len(), "C18.frag: fragments of one frame have equal size");
        let mut j = 0;
        while j < frags[f].len() {
            if k < n {
                assert!(frags[f][j] == copy[k], "C18.frag: fragments concatenate to the frame data");
            } else {
                assert!(frags[f][j] == 0, "C18.frag: padding is zero");
            }
            k += 1;
            j += 1;
        }
        total += frags[f].len();
        f += 1;
    }
    assert!(total >= n, "C18.frag: no data byte is dropped");
    if frags.len() > 0 {
        assert!(total - n < frags[0].len(), "C18.frag: less than one fragment of padding");
    }
    kani::cover!(true, "reachable");
}

macro_rules! frag_single {
    ($($name:ident: $n:expr, $fs:expr;)*) => {$(
        #[kani::proof]
        #[kani::unwind(12)]
        pub fn $name() { check_single($n, $fs); }
    )*};
}
frag_single! {
    c18_frag_n1_fs0: 1, 0;
    c18_frag_n2_fs0: 2, 0;
    c18_frag_n3_fs0: 3, 0;
    c18_frag_n4_fs0: 4, 0;
    c18_frag_n5_fs0: 5, 0;
    c18_frag_n1_fs1: 1, 1;
    c18_frag_n3_fs1: 3, 1;
    c18_frag_n4_fs2: 4, 2;
    c18_frag_n5_fs2: 5, 2;
    c18_frag_n6_fs2: 6, 2;
    c18_frag_n5_fs3: 5, 3;
    c18_frag_n6_fs4: 6, 4;
    c18_frag_n7_fs4: 7, 4;
    c18_frag_n0_fs2: 0, 2;
}

/// Empty frame with automatic fragment size.
#[kani::proof]
#[kani::unwind(12)]
pub fn c18_frag_n0_fs0() {
    check_single(0, 0);
}

/// Multi-frame: one fragment per frame, offset table = prefix sums of (8 + fragment length), first 0.
fn check_multi(lens: &[usize]) {
    let mut frames = Vec::new();
    let mut i = 0;
    while i < lens.len() {
        frames.push(Fragments::new(sym_vec(lens[i]), 0));
        i += 1;
    }
    let seq: PixelFragmentSequence<InMemFragment> = frames.into();
    let frags = seq.fragments();
    let bot = seq.offset_table();
    assert!(frags.len() == lens.len(), "C18.bot: one fragment per frame");
    assert!(bot.len() == lens.len(), "C18.bot: one offset table entry per frame");
    let mut off = 0u32;
    let mut i = 0;
    while i < lens.len() {
        assert!(frags[i].len() % 2 == 0 && frags[i].len() >= lens[i] && frags[i].len() <= lens[i] + 1, "C18.bot: fragment = frame padded to even");
        assert!(bot[i] == off, "C18.bot: entry i = byte offset of frame i's item from the first item (first entry 0)");
        off += 8 + frags[i].len() as u32;
        i += 1;
    }
    kani::cover!(true, "reachable");
}

macro_rules! frag_multi {
    ($($name:ident: $lens:expr;)*) => {$(
        #[kani::proof]
        #[kani::unwind(8)]
        pub fn $name() { check_multi(&$lens); }
    )*};
}
frag_multi! {
    c18_bot_2_4: [2usize, 4];
    c18_bot_3_1: [3usize, 1];
    c18_bot_4_6_2: [4usize, 6, 2];
    c18_bot_1_1_1: [1usize, 1, 1];
}
