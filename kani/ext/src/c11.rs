//! C11 — numeric value conversions are exact or fail (never wrapped or truncated).
use crate::common::no_bt;
use dicom_core::value::{PrimitiveValue, C};
use dicom_core::smallvec::smallvec;

/// `to_int::<T>()` on a one-item value of variant `$var` holding any `$src`:
///   Ok(v)  ==> the stored number is representable in T and v equals it
///   Err    ==> the stored number is not representable in T
macro_rules! to_int_contract {
    ($name:ident, $var:ident, $src:ty, $dst:ty) => {
        #[kani::proof]
        #[kani::unwind(12)]
        #[kani::stub(std::backtrace::Backtrace::force_capture, no_bt)]
        pub fn $name() {
            let x: $src = kani::any();
            let v = PrimitiveValue::$var(smallvec![x]);
            let fits = (x as i128) >= (<$dst>::MIN as i128) && (x as i128) <= (<$dst>::MAX as i128);
            match v.to_int::<$dst>() {
                Ok(r) => {
                    assert!(fits, "C11.to_int: a number that does not fit the target type must be an error, never wrapped or truncated");
                    assert!(r as i128 == x as i128, "C11.to_int: the result is exactly the stored number");
                    kani::cover!(true, "representable reachable");
                }
                Err(e) => {
                    core::mem::forget(e);
                    assert!(!fits, "C11.to_int: a representable number converts successfully");
                }
            }
            core::mem::forget(v);
        }
    };
}

to_int_contract!(c11_to_int_u8_u8, U8, u8, u8);
to_int_contract!(c11_to_int_u8_i8, U8, u8, i8);
to_int_contract!(c11_to_int_u8_u16, U8, u8, u16);
to_int_contract!(c11_to_int_u8_i16, U8, u8, i16);
to_int_contract!(c11_to_int_u8_u32, U8, u8, u32);
to_int_contract!(c11_to_int_u8_i32, U8, u8, i32);
to_int_contract!(c11_to_int_u8_u64, U8, u8, u64);
to_int_contract!(c11_to_int_u8_i64, U8, u8, i64);
to_int_contract!(c11_to_int_u16_u8, U16, u16, u8);
to_int_contract!(c11_to_int_u16_i8, U16, u16, i8);
to_int_contract!(c11_to_int_u16_u16, U16, u16, u16);
to_int_contract!(c11_to_int_u16_i16, U16, u16, i16);
to_int_contract!(c11_to_int_u16_u32, U16, u16, u32);
to_int_contract!(c11_to_int_u16_i32, U16, u16, i32);
to_int_contract!(c11_to_int_u16_u64, U16, u16, u64);
to_int_contract!(c11_to_int_u16_i64, U16, u16, i64);
to_int_contract!(c11_to_int_i16_u8, I16, i16, u8);
to_int_contract!(c11_to_int_i16_i8, I16, i16, i8);
to_int_contract!(c11_to_int_i16_u16, I16, i16, u16);
to_int_contract!(c11_to_int_i16_i16, I16, i16, i16);
to_int_contract!(c11_to_int_i16_u32, I16, i16, u32);
to_int_contract!(c11_to_int_i16_i32, I16, i16, i32);
to_int_contract!(c11_to_int_i16_u64, I16, i16, u64);
to_int_contract!(c11_to_int_i16_i64, I16, i16, i64);
to_int_contract!(c11_to_int_u32_u8, U32, u32, u8);
to_int_contract!(c11_to_int_u32_i8, U32, u32, i8);
to_int_contract!(c11_to_int_u32_u16, U32, u32, u16);
to_int_contract!(c11_to_int_u32_i16, U32, u32, i16);
to_int_contract!(c11_to_int_u32_u32, U32, u32, u32);
to_int_contract!(c11_to_int_u32_i32, U32, u32, i32);
to_int_contract!(c11_to_int_u32_u64, U32, u32, u64);
to_int_contract!(c11_to_int_u32_i64, U32, u32, i64);
to_int_contract!(c11_to_int_i32_u8, I32, i32, u8);
to_int_contract!(c11_to_int_i32_i8, I32, i32, i8);
to_int_contract!(c11_to_int_i32_u16, I32, i32, u16);
to_int_contract!(c11_to_int_i32_i16, I32, i32, i16);
to_int_contract!(c11_to_int_i32_u32, I32, i32, u32);
to_int_contract!(c11_to_int_i32_i32, I32, i32, i32);
to_int_contract!(c11_to_int_i32_u64, I32, i32, u64);
to_int_contract!(c11_to_int_i32_i64, I32, i32, i64);
to_int_contract!(c11_to_int_u64_u8, U64, u64, u8);
to_int_contract!(c11_to_int_u64_i8, U64, u64, i8);
to_int_contract!(c11_to_int_u64_u16, U64, u64, u16);
to_int_contract!(c11_to_int_u64_i16, U64, u64, i16);
to_int_contract!(c11_to_int_u64_u32, U64, u64, u32);
to_int_contract!(c11_to_int_u64_i32, U64, u64, i32);
to_int_contract!(c11_to_int_u64_u64, U64, u64, u64);
to_int_contract!(c11_to_int_u64_i64, U64, u64, i64);
to_int_contract!(c11_to_int_i64_u8, I64, i64, u8);
to_int_contract!(c11_to_int_i64_i8, I64, i64, i8);
to_int_contract!(c11_to_int_i64_u16, I64, i64, u16);
to_int_contract!(c11_to_int_i64_i16, I64, i64, i16);
to_int_contract!(c11_to_int_i64_u32, I64, i64, u32);
to_int_contract!(c11_to_int_i64_i32, I64, i64, i32);
to_int_contract!(c11_to_int_i64_u64, I64, i64, u64);
to_int_contract!(c11_to_int_i64_i64, I64, i64, i64);

// ---------------------------------------------------------------------------------------
// Bounded units: collection lengths are concrete (one harness per length), contents symbolic.

/// single-valued conversions return the FIRST item
#[kani::proof]
#[kani::unwind(12)]
#[kani::stub(std::backtrace::Backtrace::force_capture, no_bt)]
pub fn c11_to_int_first_of_two() {
    let a: u16 = kani::any();
    let b: u16 = kani::any();
    let v = PrimitiveValue::U16(smallvec![a, b]);
    match v.to_int::<u32>() {
        Ok(r) => assert!(r == a as u32, "C11.first: single-valued conversion returns the first item"),
        Err(e) => {
            core::mem::forget(e);
            assert!(false, "C11.first: u16 always fits u32");
        }
    }
    core::mem::forget(v);
}

/// an empty value has no integer
#[kani::proof]
#[kani::unwind(12)]
#[kani::stub(std::backtrace::Backtrace::force_capture, no_bt)]
pub fn c11_to_int_empty() {
    let v = PrimitiveValue::Empty;
    match v.to_int::<i32>() {
        Ok(_) => assert!(false, "C11.empty: an empty value does not convert to a number"),
        Err(e) => core::mem::forget(e),
    }
    let w: PrimitiveValue = PrimitiveValue::U16(C::new());
    match w.to_int::<i32>() {
        Ok(_) => assert!(false, "C11.empty: a value with no items does not convert to a number"),
        Err(e) => core::mem::forget(e),
    }
    core::mem::forget(w);
}

/// `to_multi_int`: exactly one result per stored value, in order; all-or-nothing on range
macro_rules! to_multi_int_contract {
    ($name:ident, $var:ident, $src:ty, $dst:ty, [$($x:ident),*], $n:expr) => {
        #[kani::proof]
        #[kani::unwind(12)]
        #[kani::stub(std::backtrace::Backtrace::force_capture, no_bt)]
        pub fn $name() {
            $(let $x: $src = kani::any();)*
            let items: [$src; $n] = [$($x),*];
            let v = PrimitiveValue::$var(C::from_slice(&items));
            let mut all_fit = true;
            let mut i = 0;
            while i < $n {
                if (items[i] as i128) < (<$dst>::MIN as i128) || (items[i] as i128) > (<$dst>::MAX as i128) {
                    all_fit = false;
                }
                i += 1;
            }
            match v.to_multi_int::<$dst>() {
                Ok(out) => {
                    assert!(all_fit, "C11.multi: an item that does not fit makes the conversion fail");
                    assert!(out.len() == $n, "C11.multi: exactly one result per stored value");
                    let mut i = 0;
                    while i < $n {
                        assert!(out[i] as i128 == items[i] as i128, "C11.multi: results are the stored numbers, in order");
                        i += 1;
                    }
                    core::mem::forget(out);
                    kani::cover!(true, "all fit reachable");
                }
                Err(e) => {
                    core::mem::forget(e);
                    assert!(!all_fit, "C11.multi: representable items convert");
                }
            }
            core::mem::forget(v);
        }
    };
}
to_multi_int_contract!(c11_multi_int_u16_u8_n0, U16, u16, u8, [], 0);
to_multi_int_contract!(c11_multi_int_u16_u8_n1, U16, u16, u8, [a], 1);
to_multi_int_contract!(c11_multi_int_u16_u8_n2, U16, u16, u8, [a, b], 2);
to_multi_int_contract!(c11_multi_int_i32_u16_n3, I32, i32, u16, [a, b, c], 3);
to_multi_int_contract!(c11_multi_int_u64_i64_n2, U64, u64, i64, [a, b], 2);

/// `to_multi_float64` / `to_multi_float32` on integer values: one result per item, in order
#[kani::proof]
#[kani::unwind(12)]
#[kani::stub(std::backtrace::Backtrace::force_capture, no_bt)]
pub fn c11_multi_float64_i32_n2() {
    let a: i32 = kani::any();
    let b: i32 = kani::any();
    let v = PrimitiveValue::I32(smallvec![a, b]);
    match v.to_multi_float64() {
        Ok(out) => {
            assert!(out.len() == 2, "C11.multi: exactly one result per stored value");
            assert!(out[0] == a as f64 && out[1] == b as f64, "C11.multi: results are the stored numbers, in order");
            core::mem::forget(out);
        }
        Err(e) => {
            core::mem::forget(e);
            assert!(false, "C11.multi: every i32 is a double");
        }
    }
    let e0 = PrimitiveValue::Empty;
    match e0.to_multi_float64() {
        Ok(out) => assert!(out.len() == 0, "C11.multi: a value with no items converts to an empty list"),
        Err(e) => {
            core::mem::forget(e);
            assert!(false, "C11.multi: an empty value converts to an empty list");
        }
    }
    core::mem::forget(v);
}

#[kani::proof]
#[kani::unwind(12)]
#[kani::stub(std::backtrace::Backtrace::force_capture, no_bt)]
pub fn c11_multi_float32_u16_n2() {
    let a: u16 = kani::any();
    let b: u16 = kani::any();
    let v = PrimitiveValue::U16(smallvec![a, b]);
    match v.to_multi_float32() {
        Ok(out) => {
            assert!(out.len() == 2, "C11.multi: exactly one result per stored value");
            assert!(out[0] == a as f32 && out[1] == b as f32, "C11.multi: results are the stored numbers, in order");
            core::mem::forget(out);
        }
        Err(e) => {
            core::mem::forget(e);
            assert!(false, "C11.multi: every u16 is a float");
        }
    }
    core::mem::forget(v);
}

/// `truncate(limit)`: keeps the first min(n, limit) items, unchanged
#[kani::proof]
#[kani::unwind(12)]
pub fn c11_truncate_u16_n3() {
    let a: u16 = kani::any();
    let b: u16 = kani::any();
    let c: u16 = kani::any();
    let limit: usize = kani::any();
    let mut v = PrimitiveValue::U16(smallvec![a, b, c]);
    v.truncate(limit);
    let keep = if limit < 3 { limit } else { 3 };
    match &v {
        PrimitiveValue::U16(l) => {
            assert!(l.len() == keep, "C11.truncate: cardinality becomes min(n, limit)");
            let orig = [a, b, c];
            let mut i = 0;
            while i < keep {
                assert!(l[i] == orig[i], "C11.truncate: remaining items are the first ones, unchanged");
                i += 1;
            }
        }
        _ => assert!(false, "C11.truncate: the value keeps its type"),
    }
    kani::cover!(limit == 0, "truncate to nothing reachable");
    kani::cover!(limit > 3, "no-op reachable");
    core::mem::forget(v);
}

/// `extend_u16`: items afterwards are the old items followed by the new numbers cast to the value's type
#[kani::proof]
#[kani::unwind(12)]
#[kani::stub(std::backtrace::Backtrace::force_capture, no_bt)]
pub fn c11_extend_u16_onto_u16() {
    let a: u16 = kani::any();
    let x: u16 = kani::any();
    let mut v = PrimitiveValue::U16(smallvec![a]);
    match v.extend_u16([x]) {
        Ok(()) => {}
        Err(e) => {
            core::mem::forget(e);
            assert!(false, "C11.extend: numbers can be appended to a numeric value");
        }
    }
    match &v {
        PrimitiveValue::U16(l) => assert!(l.len() == 2 && l[0] == a && l[1] == x, "C11.extend: old items then the new numbers, in order"),
        _ => assert!(false, "C11.extend: the value keeps its type"),
    }
    core::mem::forget(v);
}

#[kani::proof]
#[kani::unwind(12)]
#[kani::stub(std::backtrace::Backtrace::force_capture, no_bt)]
pub fn c11_extend_u16_onto_u8() {
    let x: u16 = kani::any();
    let p: u8 = kani::any();
    let mut w = PrimitiveValue::U8(smallvec![p]);
    match w.extend_u16([x]) {
        Ok(()) => {}
        Err(e) => core::mem::forget(e),
    }
    match &w {
        PrimitiveValue::U8(l) => assert!(l.len() == 2 && l[0] == p && l[1] == x as u8, "C11.extend: numbers are cast to the value's type (documented)"),
        _ => assert!(false, "C11.extend: the value keeps its type"),
    }
    core::mem::forget(w);
}

#[kani::proof]
#[kani::unwind(12)]
#[kani::stub(std::backtrace::Backtrace::force_capture, no_bt)]
pub fn c11_extend_u16_onto_empty() {
    let x: u16 = kani::any();
    let mut e0 = PrimitiveValue::Empty;
    match e0.extend_u16([x]) {
        Ok(()) => {}
        Err(e) => core::mem::forget(e),
    }
    match &e0 {
        PrimitiveValue::U16(l) => assert!(l.len() == 1 && l[0] == x, "C11.extend: an empty value becomes a U16 value"),
        _ => assert!(false, "C11.extend: an empty value becomes a U16 value"),
    }
    core::mem::forget(e0);
}

// a value with no items converts to an empty list — for every binary integer variant
to_multi_int_contract!(c11_multi_int_u8_i32_n0, U8, u8, i32, [], 0);
to_multi_int_contract!(c11_multi_int_i16_i32_n0, I16, i16, i32, [], 0);
to_multi_int_contract!(c11_multi_int_u32_i32_n0, U32, u32, i32, [], 0);
to_multi_int_contract!(c11_multi_int_i32_i32_n0, I32, i32, i32, [], 0);
to_multi_int_contract!(c11_multi_int_u64_u64_n0, U64, u64, u64, [], 0);
to_multi_int_contract!(c11_multi_int_i64_i64_n0, I64, i64, i64, [], 0);

// one stored item, any stored number: every source variant x every target type (u16 -> u8 is above)
to_multi_int_contract!(c11_multi_int_u8_u8_n1, U8, u8, u8, [a], 1);
to_multi_int_contract!(c11_multi_int_u8_i8_n1, U8, u8, i8, [a], 1);
to_multi_int_contract!(c11_multi_int_u8_u16_n1, U8, u8, u16, [a], 1);
to_multi_int_contract!(c11_multi_int_u8_i16_n1, U8, u8, i16, [a], 1);
to_multi_int_contract!(c11_multi_int_u8_u32_n1, U8, u8, u32, [a], 1);
to_multi_int_contract!(c11_multi_int_u8_i32_n1, U8, u8, i32, [a], 1);
to_multi_int_contract!(c11_multi_int_u8_u64_n1, U8, u8, u64, [a], 1);
to_multi_int_contract!(c11_multi_int_u8_i64_n1, U8, u8, i64, [a], 1);
to_multi_int_contract!(c11_multi_int_u16_i8_n1, U16, u16, i8, [a], 1);
to_multi_int_contract!(c11_multi_int_u16_u16_n1, U16, u16, u16, [a], 1);
to_multi_int_contract!(c11_multi_int_u16_i16_n1, U16, u16, i16, [a], 1);
to_multi_int_contract!(c11_multi_int_u16_u32_n1, U16, u16, u32, [a], 1);
to_multi_int_contract!(c11_multi_int_u16_i32_n1, U16, u16, i32, [a], 1);
to_multi_int_contract!(c11_multi_int_u16_u64_n1, U16, u16, u64, [a], 1);
to_multi_int_contract!(c11_multi_int_u16_i64_n1, U16, u16, i64, [a], 1);
to_multi_int_contract!(c11_multi_int_i16_u8_n1, I16, i16, u8, [a], 1);
to_multi_int_contract!(c11_multi_int_i16_i8_n1, I16, i16, i8, [a], 1);
to_multi_int_contract!(c11_multi_int_i16_u16_n1, I16, i16, u16, [a], 1);
to_multi_int_contract!(c11_multi_int_i16_i16_n1, I16, i16, i16, [a], 1);
to_multi_int_contract!(c11_multi_int_i16_u32_n1, I16, i16, u32, [a], 1);
to_multi_int_contract!(c11_multi_int_i16_i32_n1, I16, i16, i32, [a], 1);
to_multi_int_contract!(c11_multi_int_i16_u64_n1, I16, i16, u64, [a], 1);
to_multi_int_contract!(c11_multi_int_i16_i64_n1, I16, i16, i64, [a], 1);
to_multi_int_contract!(c11_multi_int_u32_u8_n1, U32, u32, u8, [a], 1);
to_multi_int_contract!(c11_multi_int_u32_i8_n1, U32, u32, i8, [a], 1);
to_multi_int_contract!(c11_multi_int_u32_u16_n1, U32, u32, u16, [a], 1);
to_multi_int_contract!(c11_multi_int_u32_i16_n1, U32, u32, i16, [a], 1);
to_multi_int_contract!(c11_multi_int_u32_u32_n1, U32, u32, u32, [a], 1);
to_multi_int_contract!(c11_multi_int_u32_i32_n1, U32, u32, i32, [a], 1);
to_multi_int_contract!(c11_multi_int_u32_u64_n1, U32, u32, u64, [a], 1);
to_multi_int_contract!(c11_multi_int_u32_i64_n1, U32, u32, i64, [a], 1);
to_multi_int_contract!(c11_multi_int_i32_u8_n1, I32, i32, u8, [a], 1);
to_multi_int_contract!(c11_multi_int_i32_i8_n1, I32, i32, i8, [a], 1);
to_multi_int_contract!(c11_multi_int_i32_u16_n1, I32, i32, u16, [a], 1);
to_multi_int_contract!(c11_multi_int_i32_i16_n1, I32, i32, i16, [a], 1);
to_multi_int_contract!(c11_multi_int_i32_u32_n1, I32, i32, u32, [a], 1);
to_multi_int_contract!(c11_multi_int_i32_i32_n1, I32, i32, i32, [a], 1);
to_multi_int_contract!(c11_multi_int_i32_u64_n1, I32, i32, u64, [a], 1);
to_multi_int_contract!(c11_multi_int_i32_i64_n1, I32, i32, i64, [a], 1);
to_multi_int_contract!(c11_multi_int_u64_u8_n1, U64, u64, u8, [a], 1);
to_multi_int_contract!(c11_multi_int_u64_i8_n1, U64, u64, i8, [a], 1);
to_multi_int_contract!(c11_multi_int_u64_u16_n1, U64, u64, u16, [a], 1);
to_multi_int_contract!(c11_multi_int_u64_i16_n1, U64, u64, i16, [a], 1);
to_multi_int_contract!(c11_multi_int_u64_u32_n1, U64, u64, u32, [a], 1);
to_multi_int_contract!(c11_multi_int_u64_i32_n1, U64, u64, i32, [a], 1);
to_multi_int_contract!(c11_multi_int_u64_u64_n1, U64, u64, u64, [a], 1);
to_multi_int_contract!(c11_multi_int_u64_i64_n1, U64, u64, i64, [a], 1);
to_multi_int_contract!(c11_multi_int_i64_u8_n1, I64, i64, u8, [a], 1);
to_multi_int_contract!(c11_multi_int_i64_i8_n1, I64, i64, i8, [a], 1);
to_multi_int_contract!(c11_multi_int_i64_u16_n1, I64, i64, u16, [a], 1);
to_multi_int_contract!(c11_multi_int_i64_i16_n1, I64, i64, i16, [a], 1);
to_multi_int_contract!(c11_multi_int_i64_u32_n1, I64, i64, u32, [a], 1);
to_multi_int_contract!(c11_multi_int_i64_i32_n1, I64, i64, i32, [a], 1);
to_multi_int_contract!(c11_multi_int_i64_u64_n1, I64, i64, u64, [a], 1);
to_multi_int_contract!(c11_multi_int_i64_i64_n1, I64, i64, i64, [a], 1);
