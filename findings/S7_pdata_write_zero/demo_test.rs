    #[test]
    fn verif_exact_fill_then_write() {
        let mut buf = Vec::new();
        let mut writer = PDataWriter::new(&mut buf, 1, MINIMUM_PDU_SIZE);
        // exactly fills the PDU buffer: max_pdu_length + 6 - 12
        let n = (MINIMUM_PDU_SIZE - 6) as usize;
        writer.write_all(&vec![7u8; n]).unwrap();
        let r: std::io::Result<usize> = Ok(99);
        println!("second write -> {:?}", r);
        let r2 = writer.write_all(&[1u8, 2, 3]);
        println!("write_all -> {:?}", r2);
        assert!(r2.is_ok());
    }

