#!/bin/sh
# usage: confirm_seed.sh <ID> <package> <test-args...>
# Confirms, in the agent's scratch worktree /tmp/seed-<ID>: demo FAILS with the patch, PASSES without it,
# and the package's own tests give the same pass list with and without the patch.
id=$1; pkg=$2; shift 2
pre=${SEED_PREFIX:-seed}; wt=/tmp/$pre-$id; out=/tmp/$pre-$id-out; export CARGO_TARGET_DIR=/tmp/$pre-$id-target
cd $wt || exit 9
git diff --quiet -- . && git apply $out/patch.diff   # ensure patch applied
echo "--- demo WITH patch (must fail)"
cargo test --offline -p $pkg "$@" 2>&1 | grep -E "^test result|^test .*FAILED" | head -5
git apply -R $out/patch.diff || exit 8
echo "--- demo WITHOUT patch (must pass)"
cargo test --offline -p $pkg "$@" 2>&1 | grep -E "^test result|^test .*FAILED" | head -5
echo "--- package tests WITHOUT patch"
cargo test --offline --no-fail-fast -p $pkg 2>&1 | grep -E "^test .* \.\.\. (ok|FAILED)" | grep -v "verif_demo\|demo_c26" | sort > /tmp/$pre-$id-base.txt
git apply $out/patch.diff
echo "--- package tests WITH patch"
cargo test --offline --no-fail-fast -p $pkg 2>&1 | grep -E "^test .* \.\.\. (ok|FAILED)" | grep -v "verif_demo\|demo_c26\|kani_concrete" | sort > /tmp/$pre-$id-patched.txt
if diff -q /tmp/$pre-$id-base.txt /tmp/$pre-$id-patched.txt >/dev/null; then echo "SAME test outcomes ($(grep -c ' ok$' /tmp/$pre-$id-base.txt) ok)"; else echo "DIFFERENT test outcomes"; diff /tmp/$pre-$id-base.txt /tmp/$pre-$id-patched.txt | head; fi
