#!/bin/sh
# usage: tools/reseed.sh <seed-dir-name>...      (e.g. tools/reseed.sh C18-5 C04-6)
# Re-applies recorded seeded changes to /repo one at a time, runs the property's quick check and expects exit 1
# (a VIOLATION), then undoes the change. Results go to build/logs/reseed.txt. Seed runs overwrite evidence/<id>.json:
# regenerate the evidence on the clean tree afterwards (tools/run_all.sh).
cd "$(dirname "$0")/.."
mkdir -p build/logs
for s in "$@"; do
  prop=$(echo "$s" | sed 's/-.*//')
  if ! git -C /repo diff --quiet; then echo "$s: /repo is not clean, stopping"; exit 3; fi
  if ! git -C /repo apply --check "/verif/seeded/$s/patch.diff" 2>/dev/null; then echo "$s SKIPPED (patch no longer applies)" | tee -a build/logs/reseed.txt; continue; fi
  git -C /repo apply "/verif/seeded/$s/patch.diff"
  ./check "$prop" --tier quick > "build/logs/reseed_$s.txt" 2>&1; rc=$?
  git -C /repo checkout -- .
  first=$(grep -m1 -E "^    - |INCONCLUSIVE|BROKEN" "build/logs/reseed_$s.txt" | cut -c1-160)
  if [ $rc -eq 1 ]; then echo "$s CAUGHT (exit 1) $first" | tee -a build/logs/reseed.txt; else echo "$s NOT-CAUGHT (exit $rc) $first" | tee -a build/logs/reseed.txt; fi
done
