#!/usr/bin/env python3
"""Generate /verif/MANIFEST.json from tools/registry.py + tools/manifest_meta.py."""
import json, os, sys
HERE = os.path.dirname(os.path.abspath(__file__))
sys.path.insert(0, HERE)
import registry, manifest_meta as mm

checks = []
for pid in sorted(registry.PROPS):
    P = registry.PROPS[pid]
    if P.get('claimed') is False:
        continue
    meta = mm.CHECKS[pid]
    has_thorough = any(u.get("tier") == "thorough" for u in P["units"])
    c = dict(property_id=pid,
             quick_cmd=f"./check {pid} --tier quick",
             thorough_cmd=f"./check {pid} --tier thorough",
             evidence_file=f"/verif/evidence/{pid}.json",
             replay_cmd_template=f"./check {pid} --replay {{path}}",
             engine=meta.get("engine", "contracts"),
             level_claimed=dict(category=P["level"], text=meta["text"], design_ref=meta.get("design_ref", "DESIGN.md section 7")),
             level_note=meta["note"],
             technique=meta["technique"])
    checks.append(c)
claimed = {k for k, v in registry.PROPS.items() if v.get('claimed') is not False}
na = [dict(property_id=k, reason=v) for k, v in sorted(mm.NOT_APPLICABLE.items()) if k not in claimed]
all_ids = [json.loads(l)["id"] for l in open(os.path.join(HERE, "..", "properties.jsonl"))]
missing = [i for i in all_ids if i not in claimed and i not in mm.NOT_APPLICABLE]
assert not missing, f"properties neither claimed nor not_applicable: {missing}"
m = dict(version=1,
         setup_cmd="./setup.sh",
         hooks=mm.HOOKS,
         engines=mm.ENGINES,
         checks=checks,
         notes=mm.NOTES,
         not_applicable=na)
json.dump(m, open(os.path.join(HERE, "..", "MANIFEST.json"), "w"), indent=1)
print(f"MANIFEST.json: {len(checks)} checks, {len(na)} not_applicable")
