#!/bin/sh
# Offline setup: warm the Kani and Verus caches so that the first check is not a cold build.
set -e
cd "$(dirname "$0")"
export CARGO_NET_OFFLINE=true
mkdir -p build/logs build/playback build/v
# Verus first-run warm-up
cat > build/v/_warm.rs <<'EOR'
use vstd::prelude::*;
verus! { proof fn warm() ensures 1 + 1 == 2int {} }
fn main() {}
EOR
(cd build/v && verus _warm.rs >/dev/null 2>&1 || true)
# Kani: compile the harness crates once (codegen only)
for d in kani/ext*; do
  [ -f "$d/Cargo.toml" ] || continue
  cp /repo/Cargo.lock "$d/Cargo.lock"
  (cd "$d" && CARGO_TARGET_DIR="$PWD/../../build/kani-$(basename $d)" cargo kani -Z stubbing -Z function-contracts --only-codegen >/dev/null 2>&1 || true)
done
echo "setup done"
