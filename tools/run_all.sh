#!/bin/sh
# Re-run every claimed check (quick tier) on /repo's current tree and validate the evidence files.
cd "$(dirname "$0")/.."
rc=0
for id in $(python3 -c "import json;print(' '.join(c['property_id'] for c in json.load(open('MANIFEST.json'))['checks']))"); do
  ./check $id --tier ${1:-quick} > build/logs/all_$id.txt 2>&1; r=$?
  tail -1 build/logs/all_$id.txt
  [ $r -ne 0 ] && rc=1
done
python3-vt - <<'PY'
import json,jsonschema,glob
s=json.load(open('/root/.vp/EVIDENCE.schema.json'))
for f in sorted([f for f in glob.glob('/verif/evidence/*.json') if not f.endswith('.partial.json')]):
    e=json.load(open(f))
    try:
        jsonschema.validate(e,s)
        ok = e['level']!='proof' or e['coverage']['obligations']==e['coverage']['discharged']>=1
        print(f, 'valid' if ok else 'INVALID-PROOF-COUNTS', e['coverage'].get('obligations'), e['coverage'].get('discharged'))
    except Exception as ex:
        print(f,'INVALID',str(ex)[:100])
PY
exit $rc
