"""vlib — runner for the contract checks of /verif (see DESIGN.md section 5).

Two engines:
  K  Kani/CBMC on the real crates (harness = contract check)
  V  Verus on function text extracted mechanically from /repo on every run

Exit protocol of `check`: 0 ok, 1 VIOLATION, 2 INCONCLUSIVE.
"""
import json
import os
import re
import shutil
import subprocess
import sys
import threading
import time

VERIF = os.path.dirname(os.path.dirname(os.path.abspath(__file__)))
REPO = "/repo"
BUILD = os.path.join(VERIF, "build")
sys.path.insert(0, os.path.join(VERIF, "tools"))
import rsx  # noqa: E402

ENV = dict(os.environ)
ENV.update({"CARGO_NET_OFFLINE": "true", "CARGO_TERM_COLOR": "never", "RUST_BACKTRACE": "0"})


def log(*a):
    print(*a, file=sys.stderr, flush=True)


# --------------------------------------------------------------------------- K

class KResult:
    def __init__(self, name):
        self.name = name
        self.status = "missing"      # success | failed | timeout | error | missing
        self.checks = 0
        self.failed = 0
        self.failed_checks = []      # [(description, location)]
        self.covers_sat = 0
        self.covers_total = 0
        self.time_s = 0.0
        self.stubs = []
        self.raw = ""

    def as_dict(self):
        return dict(harness=self.name, status=self.status, checks=self.checks, failed=self.failed,
                    failed_checks=self.failed_checks, covers=f"{self.covers_sat}/{self.covers_total}",
                    time_s=round(self.time_s, 2), stubs=self.stubs)


def kani_dirs(crate):
    """(cwd, extra cargo args, target dir) for a harness placement."""
    if crate.startswith("ext"):
        d = os.path.join(VERIF, "kani", crate)
        return d, [], os.path.join(BUILD, "kani-" + crate)
    # in-module harnesses: compile the real package from /repo
    return REPO, ["-p", crate], os.path.join(BUILD, "kani-in")


def prepare_ext(crate):
    d = os.path.join(VERIF, "kani", crate)
    shutil.copyfile(os.path.join(REPO, "Cargo.lock"), os.path.join(d, "Cargo.lock"))
    os.makedirs(os.path.join(BUILD, "playback"), exist_ok=True)


class RssWatchdog(threading.Thread):
    """Kills any cbmc process whose RSS exceeds `limit_gb` (reported as inconclusive)."""

    def __init__(self, limit_gb=14):
        super().__init__(daemon=True)
        self.limit = limit_gb * 1024 * 1024  # kB
        self.stop = False
        self.killed = []

    def run(self):
        while not self.stop:
            try:
                for pid in os.listdir("/proc"):
                    if not pid.isdigit():
                        continue
                    try:
                        with open(f"/proc/{pid}/comm") as f:
                            comm = f.read().strip()
                        if comm not in ("cbmc", "goto-instrument", "goto-cc", "cadical", "kissat"):
                            continue
                        with open(f"/proc/{pid}/status") as f:
                            st = f.read()
                        m = re.search(r"VmRSS:\s+(\d+) kB", st)
                        if m and int(m.group(1)) > self.limit:
                            os.kill(int(pid), 9)
                            self.killed.append((pid, comm, int(m.group(1))))
                    except (FileNotFoundError, ProcessLookupError, PermissionError):
                        pass
            except Exception:
                pass
            time.sleep(2)


def run_kani(crate, harnesses, jobs=8, harness_timeout=600, total_timeout=None, extra=None, logname=None):
    """Run the named harnesses (fully qualified names) of a placement in one
    `cargo kani` invocation. Returns dict name -> KResult plus the log path."""
    cwd, pargs, tdir = kani_dirs(crate)
    if crate.startswith("ext"):
        prepare_ext(crate)
    env = dict(ENV)
    env["CARGO_TARGET_DIR"] = tdir
    cmd = ["cargo", "kani"] + pargs + ["-Z", "stubbing", "-Z", "function-contracts", "-Z", "unstable-options",
                                       "--harness-timeout", f"{harness_timeout}s",
                                       "--output-format", "terse", "--exact", "-j", str(max(2, jobs))]
    if extra:
        cmd += extra
    for h in harnesses:
        cmd += ["--harness", h]
    os.makedirs(os.path.join(BUILD, "logs"), exist_ok=True)
    logpath = os.path.join(BUILD, "logs", (logname or f"kani-{crate}") + ".log")
    t0 = time.time()
    wd = RssWatchdog()
    wd.start()
    if total_timeout is None:
        total_timeout = 600 + harness_timeout * (1 + len(harnesses) // max(1, jobs))
    with open(logpath, "w") as lf:
        lf.write("$ " + " ".join(cmd) + f"\n# cwd={cwd}\n")
        lf.flush()
        try:
            p = subprocess.run(cmd, cwd=cwd, env=env, stdout=lf, stderr=subprocess.STDOUT, timeout=total_timeout)
            rc = p.returncode
        except subprocess.TimeoutExpired:
            rc = -9
            subprocess.run(["pkill", "-9", "-f", "cbmc"], check=False)
    wd.stop = True
    text = open(logpath, errors="replace").read()
    res = parse_kani_log(text, harnesses)
    meta = dict(cmd=" ".join(cmd), cwd=cwd, rc=rc, wall_s=round(time.time() - t0, 1), log=logpath,
                oom_killed=wd.killed, build_error=None)
    if re.search(r"^error(\[E\d+\])?:", text, re.M) and not any(r.status in ("success", "failed") for r in res.values()):
        m = re.search(r"^error(\[E\d+\])?:.*(?:\n.*){0,6}", text, re.M)
        meta["build_error"] = m.group(0) if m else "build error"
    return res, meta


_RE_CHECK = re.compile(r"^(?:Thread (\d+): )?Checking harness (\S+?)\.\.\.\s*$")
_RE_THREAD = re.compile(r"^Thread (\d+): ?(.*)$")


def parse_kani_log(text, harnesses):
    res = {h: KResult(h) for h in harnesses}
    cur_by_thread = {}
    cur = None           # KResult whose block we are in
    lines = text.splitlines()
    i = 0
    pending_desc = None
    while i < len(lines):
        ln = lines[i]
        m = _RE_CHECK.match(ln)
        if m:
            th, name = m.group(1) or "0", m.group(2)
            r = res.setdefault(name, KResult(name))
            cur_by_thread[th] = r
            cur = r
            i += 1
            continue
        m = _RE_THREAD.match(ln)
        if m:
            th, rest = m.group(1), m.group(2)
            cur = cur_by_thread.get(th, cur)
            ln = rest
        if cur is not None:
            s = ln.strip()
            ms = re.match(r"- Stub: (.*)$", s)
            if ms:
                cur.stubs.append(re.sub(r"\s+", "", ms.group(1)))
            m1 = re.match(r"\*\* (\d+) of (\d+) failed", s)
            if m1:
                cur.failed, cur.checks = int(m1.group(1)), int(m1.group(2))
            m2 = re.match(r"\*\* (\d+) of (\d+) cover properties satisfied", s)
            if m2:
                cur.covers_sat, cur.covers_total = int(m2.group(1)), int(m2.group(2))
            m3 = re.match(r"Failed Checks: (.*)$", s)
            if m3:
                pending_desc = m3.group(1).strip()
                loc = ""
                if i + 1 < len(lines) and lines[i + 1].strip().startswith("File:"):
                    loc = lines[i + 1].strip()
                cur.failed_checks.append((pending_desc.strip('"'), loc))
            if s.startswith("VERIFICATION:- SUCCESSFUL"):
                cur.status = "success"
            elif s.startswith("VERIFICATION:- FAILED"):
                cur.status = "failed"
            m4 = re.match(r"Verification Time: ([\d.]+)s", s)
            if m4:
                cur.time_s = float(m4.group(1))
            if re.search(r"timed out|TIMEOUT|Timeout", s) and cur.status == "missing":
                cur.status = "timeout"
            if re.search(r"CBMC failed|out of memory|Killed|signal: 9", s) and cur.status == "missing":
                cur.status = "error"
        i += 1
    # harness-level messages in the summary
    for m in re.finditer(r"Verification failed for - (\S+)", text):
        r = res.get(m.group(1))
        if r and r.status == "missing":
            r.status = "error"
    return res


# failed-check descriptions that are tool limits, not semantic verdicts
_INCONCLUSIVE_PAT = re.compile(
    r"unwinding assertion|is not currently supported by Kani|unsupported construct|"
    r"recursion unwinding|Kani does not support|not supported", re.I)


def classify_k(r: KResult, expect_fail=False):
    """-> (verdict, reasons) with verdict in ok | violation | inconclusive | broken"""
    if expect_fail:
        if r.status == "failed" and r.failed > 0:
            return "ok", []
        return "broken", [f"canary {r.name} did not fail (status={r.status})"]
    if r.status == "success":
        if r.checks == 0:
            return "broken", [f"{r.name}: zero checks generated (vacuous)"]
        if r.covers_total and r.covers_sat < r.covers_total:
            return "broken", [f"{r.name}: {r.covers_total - r.covers_sat} cover(s) unsatisfiable — contradictory assumption"]
        return "ok", []
    if r.status == "failed":
        sem = [(d, l) for (d, l) in r.failed_checks if not _INCONCLUSIVE_PAT.search(d)]
        if sem:
            return "violation", [f"{d}  [{l}]" for d, l in sem]
        if r.failed_checks:
            return "inconclusive", [d for d, _ in r.failed_checks]
        return "inconclusive", [f"{r.name}: FAILED without listed checks"]
    return "inconclusive", [f"{r.name}: {r.status}"]


def kani_playback_print(crate, harness, timeout=900):
    """Re-run one failing harness with concrete playback; return (test_source or None, log text)."""
    cwd, pargs, tdir = kani_dirs(crate)
    env = dict(ENV)
    env["CARGO_TARGET_DIR"] = tdir
    cmd = ["cargo", "kani"] + pargs + ["-Z", "stubbing", "-Z", "function-contracts", "-Z", "concrete-playback",
                                       "--concrete-playback=print", "--output-format", "terse", "--exact",
                                       "--harness", harness]
    try:
        p = subprocess.run(cmd, cwd=cwd, env=env, stdout=subprocess.PIPE, stderr=subprocess.STDOUT, timeout=timeout, text=True)
        out = p.stdout
    except subprocess.TimeoutExpired as e:
        out = (e.stdout or b"").decode(errors="replace") if isinstance(e.stdout, bytes) else (e.stdout or "")
        return None, out
    tests = re.findall(r"Concrete playback unit test for `[^`]+`:\s*```\n(.*?)```", out, re.S)
    # Kani also emits a test per satisfied cover; keep the counterexamples of failed assertions/checks
    fails = [t for t in tests if not re.search(r"/// Check for `cover`", t)]
    return ("\n".join(fails) if fails else None), out


def playback_file(crate):
    return os.path.join(BUILD, "playback", (crate if crate.startswith("ext") else crate.replace("-", "_")) + ".rs")


def kani_playback_run(crate, harness, test_src, timeout=1800):
    """Execute a generated concrete-playback test natively against /repo.
    Returns (reproduced: bool|None, output)."""
    cwd, pargs, tdir = kani_dirs(crate)
    env = dict(ENV)
    env["CARGO_TARGET_DIR"] = tdir
    short = harness.split("::")[-1]
    # the generated test calls the harness by bare name; qualify it
    qual = "crate::" + harness if crate.startswith("ext") else "super::" + short
    src = re.sub(r"concrete_playback_run\(concrete_vals,\s*" + re.escape(short) + r"\)",
                 f"concrete_playback_run(concrete_vals, {qual})", test_src)
    pf = playback_file(crate)
    os.makedirs(os.path.dirname(pf), exist_ok=True)
    # every playback include file must exist when compiling with cfg(test)
    for f in all_playback_files():
        if not os.path.exists(f):
            open(f, "w").close()
    with open(pf, "w") as f:
        f.write(src)
    cmd = ["cargo", "kani", "playback"] + pargs + ["-Z", "concrete-playback", "--", "kani_concrete_playback"]
    try:
        p = subprocess.run(cmd, cwd=cwd, env=env, stdout=subprocess.PIPE, stderr=subprocess.STDOUT, timeout=timeout, text=True)
        out = p.stdout
    except subprocess.TimeoutExpired:
        return None, "playback timed out"
    finally:
        open(pf, "w").close()
    if re.search(r"test result: FAILED", out):
        return True, out
    if re.search(r"test result: ok", out):
        return False, out
    return None, out


def all_playback_files():
    fs = []
    kd = os.path.join(VERIF, "kani")
    for d in sorted(os.listdir(kd)):
        if d.startswith("ext"):
            fs.append(playback_file(d))
    ind = os.path.join(kd, "in")
    if os.path.isdir(ind):
        for f in sorted(os.listdir(ind)):
            if f.endswith(".rs"):
                fs.append(os.path.join(BUILD, "playback", "in_" + f))
    return fs


# --------------------------------------------------------------------------- V

def run_verus(path, timeout=600, rlimit=None, extra=None):
    cmd = ["verus", path, "--output-json", "--time", "--multiple-errors", "20", "--triggers-mode", "silent"]
    if rlimit:
        cmd += ["--rlimit", str(rlimit)]
    if extra:
        cmd += extra
    t0 = time.time()
    try:
        p = subprocess.run(cmd, stdout=subprocess.PIPE, stderr=subprocess.PIPE, timeout=timeout, text=True,
                           cwd=os.path.dirname(path))
    except subprocess.TimeoutExpired:
        return dict(ok=False, timeout=True, verified=0, errors=0, stderr="timeout", json=None, wall_s=timeout, cmd=" ".join(cmd))
    js = None
    try:
        # stdout is one JSON document
        a = p.stdout.index("{")
        js = json.loads(p.stdout[a:])
    except Exception:
        js = None
    vr = (js or {}).get("verification-results", {})
    return dict(ok=bool(vr.get("success")), timeout=False, verified=vr.get("verified", 0), errors=vr.get("errors", 0),
                stderr=p.stderr, json=js, wall_s=round(time.time() - t0, 2), cmd=" ".join(cmd), rc=p.returncode)


_RE_VERR = re.compile(r"^(error|note)(\[[^\]]*\])?: (.*)$")


def parse_verus_errors(stderr):
    """Split rustc-style diagnostics into blocks: [(headline, block_text)]."""
    blocks, cur = [], None
    for ln in stderr.splitlines():
        if re.match(r"^(error|warning)(\[[^\]]*\])?: ", ln):
            if cur:
                blocks.append(cur)
            cur = [ln]
        elif cur is not None:
            cur.append(ln)
    if cur:
        blocks.append(cur)
    out = []
    for b in blocks:
        if b[0].startswith("error"):
            out.append((b[0], "\n".join(b)))
    return out


_V_RESOURCE = re.compile(r"rlimit|resource limit|timed out|timeout|could not prove termination.*rlimit", re.I)
_V_SEMANTIC = re.compile(
    r"postcondition not satisfied|precondition not satisfied|invariant not satisfied|assertion failed|"
    r"possible arithmetic underflow/overflow|possible division by zero|decreases not satisfied|"
    r"recommendation not met|possible bit shift underflow/overflow|unreachable|"
    r"loop invariant|index out of bounds|slice index|unable to prove post-?condition of closure|"
    r"unable to prove assertion|constructed value may fail to meet its declared type invariant", re.I)


def classify_v_block(headline):
    if headline.startswith("error: aborting") or "aborting due to" in headline:
        return "summary"
    if _V_RESOURCE.search(headline):
        return "resource"
    if _V_SEMANTIC.search(headline):
        return "semantic"
    return "unsupported"
