//! Native stand-in for the printing / selector clauses of C14 on the compiled code (not a deductive result;
//! the fmt machinery and string splitting are outside both verifiers):
//!  * every tag of 65536 groups x 64 elements: the printed form `(GGGG,EEEE)` (11 characters, upper-case hex)
//!    parses back to the same tag, as do the forms `gggg,eeee` and `ggggeeee` in lower case;
//!  * attribute selectors of 1-4 steps (tags from a pool incl. groups below 0x1000 and private tags, item
//!    indices 0, 1, 9, 10, 255, 4294967295): the printed text parses back (parse_selector) to an equal selector;
//!    the printed text is the steps' printed forms joined by '.';
//!  * dictionary keywords inside selectors resolve to the keyword's tag
//!    (`ReferencedImageSequence[2].ReferencedSOPInstanceUID`), also mixed with tags;
//!  * malformed selectors (index on the last step, missing bracket, empty step, unknown keyword, non-numeric or
//!    negative index) are rejected.
use dicom_core::dictionary::DataDictionary;
use dicom_core::ops::{AttributeSelector, AttributeSelectorStep};
use dicom_core::Tag;
use dicom_dictionary_std::StandardDataDictionary;

struct Tally { cases: u64, bad: u64 }
impl Tally {
    fn check(&mut self, ok: bool, what: impl FnOnce() -> String) {
        self.cases += 1;
        if !ok { self.bad += 1; if self.bad <= 8 { println!("WITNESS unit=C14.text {}", what()); } }
    }
}

fn main() {
    let mut t = Tally { cases: 0, bad: 0 };
    let elements: Vec<u16> = (0..64u32).map(|i| (i * 1041 + if i % 2 == 0 { 0 } else { 0xF000 }) as u16).chain([0x0000, 0x0010, 0x00FF, 0x0FFF, 0x1000, 0xFFFF]).collect();
    for g in 0..=0xFFFFu16 {
        for &e in &elements {
            let tag = Tag(g, e);
            let printed = tag.to_string();
            let want = format!("({:04X},{:04X})", g, e);
            t.check(printed == want, || format!("Tag({:#06x},{:#06x}) prints as {:?}, expected {:?}", g, e, printed, want));
            t.check(printed.parse::<Tag>().ok() == Some(tag), || format!("printed tag {:?} parses back as {:?}", printed, printed.parse::<Tag>().ok()));
            if g % 257 == 0 {
                for text in [format!("{:04x},{:04x}", g, e), format!("{:04x}{:04x}", g, e), format!("({:04x},{:04X})", g, e)] {
                    t.check(text.parse::<Tag>().ok() == Some(tag), || format!("tag text {:?} parses as {:?}", text, text.parse::<Tag>().ok()));
                }
            }
        }
    }
    let dict = StandardDataDictionary;
    let pool = [Tag(0x0008, 0x1140), Tag(0x0040, 0xA730), Tag(0x0008, 0x0100), Tag(0x0009, 0x1001), Tag(0x0002, 0x0010), Tag(0xFFFA, 0xFFFA), Tag(0x0000, 0x0000)];
    let indices = [0u32, 1, 9, 10, 255, u32::MAX];
    let mut n = 0usize;
    for depth in 1..=4usize {
        for a in 0..pool.len() { for b in 0..indices.len() {
            n += 1;
            let mut steps = Vec::new();
            for k in 0..depth - 1 { steps.push(AttributeSelectorStep::Nested { tag: pool[(a + k) % pool.len()], item: indices[(b + k * 2) % indices.len()] }); }
            steps.push(AttributeSelectorStep::Tag(pool[(a + depth + n) % pool.len()]));
            let sel = match AttributeSelector::new(steps.clone()) { Some(s) => s, None => { t.check(false, || format!("AttributeSelector::new refused {:?}", steps)); continue; } };
            let text = sel.to_string();
            let want: String = steps.iter().map(|s| match s { AttributeSelectorStep::Tag(tg) => format!("({:04X},{:04X})", tg.0, tg.1), AttributeSelectorStep::Nested { tag, item } => format!("({:04X},{:04X})[{}]", tag.0, tag.1, item) }).collect::<Vec<_>>().join(".");
            t.check(text == want, || format!("selector {:?} prints as {:?}, expected {:?}", steps, text, want));
            let back = dict.parse_selector(&text).ok();
            t.check(back.as_ref() == Some(&sel), || format!("selector text {:?} parses back as {:?}", text, back));
        } }
    }
    // keywords
    let kw = [("PatientName", Tag(0x0010, 0x0010)), ("ReferencedSOPInstanceUID", Tag(0x0008, 0x1155)), ("ReferencedImageSequence", Tag(0x0008, 0x1140)), ("ContentSequence", Tag(0x0040, 0xA730)), ("Rows", Tag(0x0028, 0x0010))];
    for (k, tag) in kw {
        t.check(dict.parse_selector(k).ok() == AttributeSelector::new([AttributeSelectorStep::Tag(tag)]), || format!("selector {:?} = {:?}", k, dict.parse_selector(k).ok()));
        for idx in [0u32, 3, 12] {
            let text = format!("ContentSequence[{}].{}", idx, k);
            let want = AttributeSelector::new([AttributeSelectorStep::Nested { tag: Tag(0x0040, 0xA730), item: idx }, AttributeSelectorStep::Tag(tag)]);
            t.check(dict.parse_selector(&text).ok() == want, || format!("selector {:?} = {:?}", text, dict.parse_selector(&text).ok()));
            let text = format!("(0040,A730)[{}].ReferencedImageSequence[{}].{}", idx, idx + 1, k);
            let want = AttributeSelector::new([AttributeSelectorStep::Nested { tag: Tag(0x0040, 0xA730), item: idx }, AttributeSelectorStep::Nested { tag: Tag(0x0008, 0x1140), item: idx + 1 }, AttributeSelectorStep::Tag(tag)]);
            t.check(dict.parse_selector(&text).ok() == want, || format!("selector {:?} = {:?}", text, dict.parse_selector(&text).ok()));
        }
    }
    for bad in ["", ".", "PatientName.", ".PatientName", "PatientName[0]", "ContentSequence[1", "ContentSequence1].Rows", "ContentSequence[].Rows", "ContentSequence[x].Rows", "ContentSequence[-1].Rows",
                "ContentSequence[1]Rows", "NoSuchKeyword", "ContentSequence[0].NoSuchKeyword", "patientname", "(0010,0010", "0010,00100", "ContentSequence[4294967296].Rows"] {
        t.check(dict.parse_selector(bad).is_err(), || format!("malformed selector {:?} is accepted: {:?}", bad, dict.parse_selector(bad).ok()));
    }
    println!("EXHAUSTIVE unit=C14.text cases={} mismatches={}", t.cases, t.bad);
}
