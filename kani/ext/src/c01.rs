//! C01 (value-codec layer) — scalar basic codecs: encode then decode is the identity for every
//! value, exactly 2/4/8 bytes are written and consumed, byte order per endianness.
use dicom_encoding::decode::basic::{BigEndianBasicDecoder, LittleEndianBasicDecoder};
use dicom_encoding::decode::BasicDecode;
use dicom_encoding::encode::basic::{BigEndianBasicEncoder, LittleEndianBasicEncoder};
use dicom_encoding::encode::BasicEncode;

macro_rules! scalar_roundtrip {
    ($name:ident, $enc:expr, $dec:expr, $efn:ident, $dfn:ident, $ty:ty, $n:expr, $big:expr, $bits:ident) => {
        #[kani::proof]
        #[kani::unwind(10)]
        pub fn $name() {
            let x: $ty = kani::any();
            let mut out = [0xA5u8; 10];
            let rem;
            let r = {
                let mut w = &mut out[..];
                let r = $enc.$efn(&mut w, x);
                rem = w.len();
                r
            };
            assert!(r.is_ok(), "C01.scalar: encoding into a large enough buffer succeeds");
            assert!(10 - rem == $n, "C01.scalar: a value of this type occupies exactly its size in bytes");
            // byte order per endianness: first byte is the most (BE) / least (LE) significant one
            let bits = x.$bits();
            let first = if $big { (bits >> (8 * ($n - 1))) as u8 } else { bits as u8 };
            assert!(out[0] == first, "C01.scalar: byte order follows the transfer syntax endianness");
            assert!(out[$n] == 0xA5, "C01.scalar: nothing written past the value");
            let mut s = &out[..];
            match $dec.$dfn(&mut s) {
                Ok(y) => {
                    assert!(y.$bits() == bits, "C01.scalar: decoding the encoded value returns the same value");
                    assert!(10 - s.len() == $n, "C01.scalar: decoding consumes exactly the value's bytes");
                    kani::cover!(true, "round trip reachable");
                }
                Err(e) => {
                    core::mem::forget(e);
                    assert!(false, "C01.scalar: an encoded value decodes");
                }
            }
        }
    };
}

trait Bits { type B; }
trait BitsU16 { fn b16(self) -> u64; }
impl BitsU16 for u16 { fn b16(self) -> u64 { self as u64 } }
impl BitsU16 for i16 { fn b16(self) -> u64 { self as u16 as u64 } }
trait BitsU32 { fn b32(self) -> u64; }
impl BitsU32 for u32 { fn b32(self) -> u64 { self as u64 } }
impl BitsU32 for i32 { fn b32(self) -> u64 { self as u32 as u64 } }
impl BitsU32 for f32 { fn b32(self) -> u64 { self.to_bits() as u64 } }
trait BitsU64 { fn b64(self) -> u64; }
impl BitsU64 for u64 { fn b64(self) -> u64 { self } }
impl BitsU64 for i64 { fn b64(self) -> u64 { self as u64 } }
impl BitsU64 for f64 { fn b64(self) -> u64 { self.to_bits() } }

scalar_roundtrip!(c01_us_le, LittleEndianBasicEncoder, LittleEndianBasicDecoder, encode_us, decode_us, u16, 2, false, b16);
scalar_roundtrip!(c01_us_be, BigEndianBasicEncoder, BigEndianBasicDecoder, encode_us, decode_us, u16, 2, true, b16);
scalar_roundtrip!(c01_ss_le, LittleEndianBasicEncoder, LittleEndianBasicDecoder, encode_ss, decode_ss, i16, 2, false, b16);
scalar_roundtrip!(c01_ss_be, BigEndianBasicEncoder, BigEndianBasicDecoder, encode_ss, decode_ss, i16, 2, true, b16);
scalar_roundtrip!(c01_ul_le, LittleEndianBasicEncoder, LittleEndianBasicDecoder, encode_ul, decode_ul, u32, 4, false, b32);
scalar_roundtrip!(c01_ul_be, BigEndianBasicEncoder, BigEndianBasicDecoder, encode_ul, decode_ul, u32, 4, true, b32);
scalar_roundtrip!(c01_sl_le, LittleEndianBasicEncoder, LittleEndianBasicDecoder, encode_sl, decode_sl, i32, 4, false, b32);
scalar_roundtrip!(c01_sl_be, BigEndianBasicEncoder, BigEndianBasicDecoder, encode_sl, decode_sl, i32, 4, true, b32);
scalar_roundtrip!(c01_uv_le, LittleEndianBasicEncoder, LittleEndianBasicDecoder, encode_uv, decode_uv, u64, 8, false, b64);
scalar_roundtrip!(c01_uv_be, BigEndianBasicEncoder, BigEndianBasicDecoder, encode_uv, decode_uv, u64, 8, true, b64);
scalar_roundtrip!(c01_sv_le, LittleEndianBasicEncoder, LittleEndianBasicDecoder, encode_sv, decode_sv, i64, 8, false, b64);
scalar_roundtrip!(c01_sv_be, BigEndianBasicEncoder, BigEndianBasicDecoder, encode_sv, decode_sv, i64, 8, true, b64);
scalar_roundtrip!(c01_fl_le, LittleEndianBasicEncoder, LittleEndianBasicDecoder, encode_fl, decode_fl, f32, 4, false, b32);
scalar_roundtrip!(c01_fl_be, BigEndianBasicEncoder, BigEndianBasicDecoder, encode_fl, decode_fl, f32, 4, true, b32);
scalar_roundtrip!(c01_fd_le, LittleEndianBasicEncoder, LittleEndianBasicDecoder, encode_fd, decode_fd, f64, 8, false, b64);
scalar_roundtrip!(c01_fd_be, BigEndianBasicEncoder, BigEndianBasicDecoder, encode_fd, decode_fd, f64, 8, true, b64);

/// multi-value decoders: `decode_us_into` etc. fill every slot from consecutive values
#[kani::proof]
#[kani::unwind(10)]
pub fn c01_us_into_be_n3() {
    let src: [u8; 6] = kani::any();
    let mut dst = [0u16; 3];
    let mut s = &src[..];
    match BigEndianBasicDecoder.decode_us_into(&mut s, &mut dst) {
        Ok(()) => {
            assert!(s.len() == 0, "C01.into: n values of 2 bytes consume 2n bytes");
            assert!(dst[0] == ((src[0] as u16) << 8 | src[1] as u16) && dst[2] == ((src[4] as u16) << 8 | src[5] as u16),
                "C01.into: values are decoded in order with the codec's byte order");
        }
        Err(e) => { core::mem::forget(e); assert!(false, "C01.into: enough bytes"); }
    }
}

#[kani::proof]
#[kani::unwind(10)]
pub fn c01_ul_into_le_n2() {
    let src: [u8; 8] = kani::any();
    let mut dst = [0u32; 2];
    let mut s = &src[..];
    match LittleEndianBasicDecoder.decode_ul_into(&mut s, &mut dst) {
        Ok(()) => {
            assert!(s.len() == 0, "C01.into: n values of 4 bytes consume 4n bytes");
            assert!(dst[1] == (src[4] as u32 | (src[5] as u32) << 8 | (src[6] as u32) << 16 | (src[7] as u32) << 24),
                "C01.into: values are decoded in order with the codec's byte order");
        }
        Err(e) => { core::mem::forget(e); assert!(false, "C01.into: enough bytes"); }
    }
}
