//! Native stand-in for the ASYNCHRONOUS clauses of C26 on the compiled code (not a deductive result):
//!  (a) the asynchronous P-DATA writer through a real asynchronous requestor association over loopback TCP
//!      (acceptor maximum PDU length = the library's minimum): the same payload sizes and write schedules as
//!      the synchronous unit; the acceptor (a synchronous thread) receives the raw PDUs: each is a P-DATA-TF
//!      of length <= the maximum with one value for the presentation context, only the final one marked
//!      last, and the values concatenate to the payload;
//!  (b) the asynchronous P-DATA reader (`AsyncRead for PDataReader`) on writer-shaped messages delivered by a
//!      mock transport in segments of 1 / 5 / 13 / all bytes that answers "not ready" (Pending) on every
//!      other poll, with caller buffers of 1 / 2 / 64 bytes: reading until 0 returns exactly the payload and
//!      `read_buffer` ++ transport holds exactly the bytes that follow the message.
//!  (c) the asynchronous writer under back-pressure: 8-24 MiB payloads (larger than the loopback socket buffers) written in
//!      chunks that do not line up with the PDU data length to an acceptor that starts reading late and reads slowly, so that
//!      the transport accepts PDUs only in part and answers "not ready" in between.
//! Skipped (never failed) where the sandbox has no loopback TCP (parts a and c only).
use bytes::BytesMut;
use dicom_ul::association::client::ClientAssociationOptions;
use dicom_ul::association::server::ServerAssociationOptions;
use dicom_ul::association::PDataReader;
use dicom_ul::pdu::{write_pdu, PDataValue, PDataValueType, Pdu, MAXIMUM_PDU_SIZE, MINIMUM_PDU_SIZE};
use std::pin::Pin;
use std::task::{Context, Poll};
use tokio::io::{AsyncRead, AsyncReadExt, AsyncWriteExt, ReadBuf};

const ABSTRACT: &str = "1.2.840.10008.1.1";

struct Tally { cases: u64, bad: u64 }
impl Tally {
    fn fail(&mut self, what: String) { self.bad += 1; if self.bad <= 8 { println!("WITNESS unit=C26.async {}", what); } }
}

/// transport handing out the stream in segments, "not ready" on every other poll
struct Mock { data: Vec<u8>, pos: usize, step: usize, ready: bool }
impl AsyncRead for Mock {
    fn poll_read(mut self: Pin<&mut Self>, cx: &mut Context<'_>, buf: &mut ReadBuf<'_>) -> Poll<std::io::Result<()>> {
        if !self.ready { self.ready = true; cx.waker().wake_by_ref(); return Poll::Pending; }
        self.ready = false;
        let n = self.step.min(self.data.len() - self.pos).min(buf.remaining());
        let (a, b) = (self.pos, self.pos + n);
        buf.put_slice(&self.data[a..b]);
        self.pos = b;
        Poll::Ready(Ok(()))
    }
}

fn pdata(bytes: &[u8], last: bool) -> Pdu {
    Pdu::PData { data: vec![PDataValue { presentation_context_id: 1, value_type: PDataValueType::Data, is_last: last, data: bytes.to_vec() }] }
}

fn main() {
    let mut t = Tally { cases: 0, bad: 0 };
    let rt = tokio::runtime::Builder::new_multi_thread().worker_threads(2).enable_all().build().expect("runtime");
    // (b) asynchronous reader
    let mut counter = 0u8;
    let mut fresh = |n: usize| -> Vec<u8> { (0..n).map(|_| { counter = counter.wrapping_add(1); counter }).collect() };
    let mut shapes: Vec<(Vec<usize>, usize)> = Vec::new();
    for last in 0..=3usize { shapes.push((vec![], last)); for a in 0..=3usize { shapes.push((vec![a], last)); shapes.push((vec![a, 2], last)); shapes.push((vec![a, 0], last)); } }
    for (nonfinal, last) in &shapes {
        for follow in 0..3u8 {
            let mut stream = Vec::new();
            let mut payload = Vec::new();
            for n in nonfinal { let d = fresh(*n); payload.extend_from_slice(&d); write_pdu(&mut stream, &pdata(&d, false)).expect("write"); }
            let d = fresh(*last);
            payload.extend_from_slice(&d);
            write_pdu(&mut stream, &pdata(&d, true)).expect("write");
            let msg_end = stream.len();
            match follow { 1 => { let d = fresh(2); write_pdu(&mut stream, &pdata(&d, true)).expect("write"); } 2 => { write_pdu(&mut stream, &Pdu::ReleaseRQ).expect("write"); } _ => {} }
            let rest = stream[msg_end..].to_vec();
            for step in [1usize, 5, 13, 1 << 20] { for cap in [1usize, 2, 64] {
                t.cases += 1;
                let mut transport = Mock { data: stream.clone(), pos: 0, step, ready: false };
                let mut read_buffer = BytesMut::new();
                let mut got = Vec::new();
                let mut err = None;
                {
                    let mut reader = PDataReader::new(&mut transport, MAXIMUM_PDU_SIZE, &mut read_buffer);
                    let mut buf = vec![0u8; cap];
                    rt.block_on(async {
                        for _ in 0..1000 {
                            match tokio::time::timeout(std::time::Duration::from_secs(20), reader.read(&mut buf)).await {
                                Ok(Ok(0)) => return,
                                Ok(Ok(n)) => got.extend_from_slice(&buf[..n]),
                                Ok(Err(e)) => { err = Some(e.to_string()); return; }
                                Err(_) => { err = Some("no progress within 20 s".to_string()); return; }
                            }
                        }
                        err = Some("no end of stream after 1000 reads".to_string());
                    });
                }
                let mut left = read_buffer.to_vec();
                left.extend_from_slice(&transport.data[transport.pos..]);
                if err.is_some() || got != payload || left != rest {
                    t.fail(format!("asynchronous reader: non-final value sizes {:?}, final value size {}, continuation {}; transport segments of {} bytes with Pending on every other poll, caller buffer {}: read {:02X?} (error {:?}), expected {:02X?}; left for the next receive {:02X?}, expected {:02X?}", nonfinal, last, follow, step, cap, got, err, payload, left, rest));
                }
            } }
        }
    }
    // (a) asynchronous writer over a loopback association
    let listener = match std::net::TcpListener::bind("127.0.0.1:0") { Ok(l) => l, Err(e) => { println!("SKIPPED unit=C26.async reason=loopback TCP unavailable for the writer part: {}", e); println!("EXHAUSTIVE unit=C26.async cases={} mismatches={}", t.cases, t.bad); return; } };
    let addr = listener.local_addr().unwrap();
    let max = MINIMUM_PDU_SIZE;
    let data_max = (max - 6) as usize;
    let sizes: Vec<usize> = vec![0, 1, data_max - 1, data_max, data_max + 1, 2 * data_max, 2 * data_max + 1, 3 * data_max + 5];
    let schedules: Vec<(&str, Vec<usize>)> = vec![("one write", vec![usize::MAX]), ("1-byte writes", vec![1]), ("7-byte writes", vec![7]), ("500-byte writes", vec![500]),
        ("writes straddling the PDU boundary", vec![data_max - 3, 10, data_max])];
    let server = std::thread::spawn(move || -> Result<Vec<Vec<(u32, usize, u8, bool, Vec<u8>)>>, String> {
        let (stream, _) = listener.accept().map_err(|e| e.to_string())?;
        let mut assoc = ServerAssociationOptions::new().accept_any().with_abstract_syntax(ABSTRACT).max_pdu_length(max).establish(stream).map_err(|e| e.to_string())?;
        let (mut messages, mut current) = (Vec::new(), Vec::new());
        loop {
            match assoc.receive().map_err(|e| e.to_string())? {
                Pdu::PData { data } => {
                    let mut bytes = Vec::new();
                    write_pdu(&mut bytes, &Pdu::PData { data: data.clone() }).map_err(|e| e.to_string())?;
                    let len_field = u32::from_be_bytes([bytes[2], bytes[3], bytes[4], bytes[5]]);
                    let last = data.iter().any(|v| v.is_last);
                    let mut all = Vec::new();
                    for v in &data { all.extend_from_slice(&v.data); }
                    current.push((len_field, data.len(), data.first().map(|v| v.presentation_context_id).unwrap_or(0), data.first().map(|v| v.is_last).unwrap_or(false), all));
                    if last { messages.push(std::mem::take(&mut current)); }
                }
                Pdu::ReleaseRQ => { let _ = assoc.send(&Pdu::ReleaseRP); break; }
                other => return Err(format!("unexpected PDU {}", other.short_description())),
            }
        }
        if !current.is_empty() { messages.push(current); }
        Ok(messages)
    });
    let mut sent: Vec<(Vec<u8>, String)> = Vec::new();
    let ctx = rt.block_on(async {
        let mut client = match ClientAssociationOptions::new().with_abstract_syntax(ABSTRACT).establish_async(addr).await { Ok(c) => c, Err(e) => { println!("SKIPPED unit=C26.async reason=could not associate over loopback: {}", e); return None; } };
        let ctx = client.presentation_contexts()[0].id;
        let mut counter = 0u8;
        for size in &sizes { for (name, chunks) in &schedules {
            let payload: Vec<u8> = (0..*size).map(|_| { counter = counter.wrapping_add(1); counter }).collect();
            let label = format!("asynchronous writer: payload of {} bytes, {}", size, name);
            let mut w = client.send_pdata(ctx);
            let (mut pos, mut k, mut err) = (0usize, 0usize, None);
            while pos < payload.len() {
                let c = chunks[k.min(chunks.len() - 1)].min(payload.len() - pos);
                if let Err(e) = w.write_all(&payload[pos..pos + c]).await { err = Some(e.to_string()); break; }
                pos += c; k += 1;
            }
            if err.is_none() { if let Err(e) = w.finish().await { err = Some(e.to_string()); } } else { drop(w); }
            if let Some(e) = err { println!("WITNESS unit=C26.async {}: the writer failed: {}", label, e); }
            sent.push((payload, label));
        } }
        let _ = client.release().await;
        Some(ctx)
    });
    let ctx = match ctx { Some(c) => c, None => { println!("EXHAUSTIVE unit=C26.async cases={} mismatches={}", t.cases, t.bad); return; } };
    let received = match server.join() { Ok(Ok(m)) => m, other => { t.cases += 1; t.fail(format!("acceptor side failed: {:?}", other.map(|r| r.map(|m| m.len())).map_err(|_| "panic"))); println!("EXHAUSTIVE unit=C26.async cases={} mismatches={}", t.cases, t.bad); return; } };
    if received.len() != sent.len() { t.cases += 1; t.fail(format!("asynchronous writer: {} messages sent, {} messages received", sent.len(), received.len())); }
    for ((payload, label), pdus) in sent.iter().zip(received.iter()) {
        t.cases += 1;
        let mut got = Vec::new();
        let mut problem = None;
        for (i, (len_field, n, c, last, data)) in pdus.iter().enumerate() {
            if *len_field > max { problem = Some(format!("PDU {} has length {} > maximum {}", i, len_field, max)); }
            if *n != 1 { problem = Some(format!("PDU {} carries {} values", i, n)); }
            if *c != ctx { problem = Some(format!("PDU {} is for presentation context {}", i, c)); }
            if *last != (i + 1 == pdus.len()) { problem = Some(format!("PDU {} of {} has last = {}", i, pdus.len(), last)); }
            got.extend_from_slice(data);
        }
        if problem.is_none() && got != *payload { problem = Some(format!("the values concatenate to {} bytes that differ from the {} bytes sent", got.len(), payload.len())); }
        if let Some(p) = problem { t.fail(format!("{}: {} (PDU lengths {:?})", label, p, pdus.iter().map(|x| x.0).collect::<Vec<_>>())); }
    }
    backpressure(&rt, &mut t);
    println!("EXHAUSTIVE unit=C26.async cases={} mismatches={}", t.cases, t.bad);
}

/// (c) the asynchronous writer under BACK-PRESSURE: payloads larger than the loopback socket buffers, written in chunks that do not line
/// up with the PDU data length, to an acceptor that does not read for 1.5 s and then reads slowly — the TCP transport accepts PDUs only in
/// part and answers "not ready" in between. Every PDU received is checked and the values must concatenate to the payload.
fn backpressure(rt: &tokio::runtime::Runtime, t: &mut Tally) {
    let runs: Vec<(u32, usize, Vec<usize>)> = vec![
        (MINIMUM_PDU_SIZE, 12 << 20, vec![20_000, 5_000, 777, 1, 16_378, 33_000, 4_096]),
        (16_384, 24 << 20, vec![20_000, 5_000, 777, 1, 16_378, 33_000, 4_096]),
        (MINIMUM_PDU_SIZE, 8 << 20, vec![1_017, 3, 500, 2_000, 1_018, 1_019]),
    ];
    for (max, total, chunks) in runs {
        t.cases += 1;
        let label = format!("asynchronous writer under back-pressure: payload of {} bytes, maximum PDU length {}, write chunks {:?} in rotation", total, max, chunks);
        let listener = match std::net::TcpListener::bind("127.0.0.1:0") { Ok(l) => l, Err(_) => return };
        let addr = listener.local_addr().unwrap();
        let server = std::thread::spawn(move || -> Result<(Vec<u8>, Option<String>, u8), String> {
            let (stream, _) = listener.accept().map_err(|e| e.to_string())?;
            let mut assoc = ServerAssociationOptions::new().accept_any().with_abstract_syntax(ABSTRACT).max_pdu_length(max).establish(stream).map_err(|e| e.to_string())?;
            std::thread::sleep(std::time::Duration::from_millis(1500));
            let (mut got, mut problem, mut pdus, mut ctx, mut done) = (Vec::new(), None, 0usize, 0u8, false);
            loop {
                match assoc.receive().map_err(|e| e.to_string())? {
                    Pdu::PData { data } => {
                        pdus += 1;
                        if done && problem.is_none() { problem = Some(format!("PDU {} follows the value marked last", pdus)); }
                        if data.len() != 1 && problem.is_none() { problem = Some(format!("PDU {} carries {} values", pdus, data.len())); }
                        for v in data {
                            if v.data.len() + 6 > max as usize && problem.is_none() { problem = Some(format!("PDU {} has length {} > maximum {}", pdus, v.data.len() + 6, max)); }
                            if ctx == 0 { ctx = v.presentation_context_id; } else if ctx != v.presentation_context_id && problem.is_none() { problem = Some(format!("PDU {} is for presentation context {}", pdus, v.presentation_context_id)); }
                            got.extend_from_slice(&v.data);
                            if v.is_last { done = true; }
                        }
                        if pdus % 64 == 0 { std::thread::sleep(std::time::Duration::from_millis(2)); }
                    }
                    Pdu::ReleaseRQ => { let _ = assoc.send(&Pdu::ReleaseRP); break; }
                    other => return Err(format!("unexpected PDU {}", other.short_description())),
                }
            }
            if !done && problem.is_none() { problem = Some("no value was marked last".to_string()); }
            Ok((got, problem, ctx))
        });
        let payload: Vec<u8> = (0..total as u32).map(|i| (i ^ (i >> 8) ^ (i >> 16)).wrapping_mul(31) as u8).collect();
        let sent_ctx = rt.block_on(async {
            let mut client = match ClientAssociationOptions::new().with_abstract_syntax(ABSTRACT).establish_async(addr).await { Ok(c) => c, Err(_) => return None };
            let ctx = client.presentation_contexts()[0].id;
            let mut err = None;
            {
                let mut w = client.send_pdata(ctx);
                let (mut pos, mut k) = (0usize, 0usize);
                while pos < payload.len() {
                    let c = chunks[k % chunks.len()].min(payload.len() - pos);
                    if let Err(e) = w.write_all(&payload[pos..pos + c]).await { err = Some(e.to_string()); break; }
                    pos += c; k += 1;
                }
                if err.is_none() { if let Err(e) = w.finish().await { err = Some(e.to_string()); } }
            }
            let _ = client.release().await;
            Some((ctx, err))
        });
        let (sent_ctx, err) = match sent_ctx { Some(x) => x, None => { let _ = server.join(); t.cases -= 1; continue; } };
        if let Some(e) = err { t.fail(format!("{}: the writer failed: {}", label, e)); let _ = server.join(); continue; }
        match server.join() {
            Ok(Ok((got, problem, ctx))) => {
                if let Some(p) = problem { t.fail(format!("{}: {}", label, p)); }
                else if ctx != sent_ctx { t.fail(format!("{}: values for presentation context {} instead of {}", label, ctx, sent_ctx)); }
                else if got != payload { t.fail(format!("{}: {} bytes received, {} sent; first difference at offset {:?}", label, got.len(), payload.len(), got.iter().zip(payload.iter()).position(|(a, b)| a != b))); }
            }
            other => t.fail(format!("{}: acceptor side failed: {:?}", label, other.map(|r| r.map(|_| ())).map_err(|_| "panic"))),
        }
    }
}
