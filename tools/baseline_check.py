#!/usr/bin/env python3
"""Run /repo's test suite with the guard OFF and compare with BASELINE.json's stable_pass list."""
import json, re, subprocess, sys
b = json.load(open('/root/.vp/BASELINE.json'))
sp = b['stable_pass']
p = subprocess.run("cd /repo && cargo test --workspace --no-fail-fast --offline 2>&1", shell=True, stdout=subprocess.PIPE, text=True)
out = p.stdout
open('/verif/build/logs/baseline.log', 'w').write(out)
# map: binary -> crate name
ok, failed = set(), set()
crate = None
for ln in out.splitlines():
    m = re.search(r'Running (?:unittests )?(\S+) \((?:\S*/)?deps/([A-Za-z0-9_]+)-[0-9a-f]+\)', ln)
    if m:
        crate = m.group(2).replace('_', '-')
        src = m.group(1)
        continue
    m = re.match(r'\s*Doc-tests (\S+)', ln)
    if m:
        crate = 'doc:' + m.group(1)
        continue
    m = re.match(r'^test (\S+)(?: - should panic)? \.\.\. (ok|FAILED|ignored)', ln)
    if m and crate:
        (ok if m.group(2) == 'ok' else failed if m.group(2) == 'FAILED' else set()).add((crate, m.group(1)))
names_ok = {f"{c}::{t}" for c, t in ok}
tests_ok = {t for c, t in ok}
missing = []
for s in sp:
    if s in names_ok:
        continue
    # fall back: match on test path suffix (integration tests carry the binary name)
    parts = s.split('::')
    if any(('::'.join(parts[i:])) in tests_ok for i in range(1, len(parts))):
        continue
    missing.append(s)
print(f"baseline stable_pass={len(sp)} passed_now={len(sp)-len(missing)} missing={len(missing)} (total ok now: {len(ok)}, failed now: {len(failed)})")
for m_ in missing[:40]:
    print("  NOT PASSING:", m_)
sys.exit(1 if missing else 0)
