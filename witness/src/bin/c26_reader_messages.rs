//! Bounded native stand-in for the reader clause of C26 at MESSAGE level (survives restructurings of
//! `PDataReader::read` that the extracted-text proof cannot follow): messages shaped like the writer's
//! output (1-3 P-DATA PDUs with one value each, only the final one marked last, non-final values of 1-3
//! bytes, the final value of 0-3 bytes) are written with the real `write_pdu`, followed by nothing, by a
//! second P-DATA message or by an A-RELEASE-RQ; the byte stream is handed to the real `PDataReader` in
//! several transport segmentations and with caller buffers of 1, 2 and 64 bytes. Reading until Ok(0)
//! must return exactly the message payload, and `read_buffer` ++ (bytes the transport still holds) must
//! be exactly the bytes that follow the message.
use bytes::BytesMut;
use dicom_ul::association::PDataReader;
use dicom_ul::pdu::{write_pdu, PDataValue, PDataValueType, Pdu, MAXIMUM_PDU_SIZE};
use std::io::Read;

struct Segmented { data: Vec<u8>, step: usize, pos: usize }
impl Read for Segmented {
    fn read(&mut self, buf: &mut [u8]) -> std::io::Result<usize> {
        if self.pos >= self.data.len() { return Ok(0); }
        let n = self.step.min(self.data.len() - self.pos).min(buf.len());
        buf[..n].copy_from_slice(&self.data[self.pos..self.pos + n]);
        self.pos += n;
        Ok(n)
    }
}

fn pdata(bytes: &[u8], last: bool) -> Pdu {
    Pdu::PData { data: vec![PDataValue { presentation_context_id: 1, value_type: PDataValueType::Data, is_last: last, data: bytes.to_vec() }] }
}

fn main() {
    let (mut cases, mut bad) = (0u64, 0u64);
    let mut counter = 0u8;
    let mut fresh = |n: usize| -> Vec<u8> { (0..n).map(|_| { counter = counter.wrapping_add(1); counter }).collect() };
    // message shapes: sizes of the non-final values, then the size of the final value
    let mut shapes: Vec<(Vec<usize>, usize)> = Vec::new();
    for last in 0..=3usize {
        shapes.push((vec![], last));
        // (a non-final value may be EMPTY: it must not be taken for the end of the message)
        for a in 0..=3usize {
            shapes.push((vec![a], last));
            for b in 0..=3usize { shapes.push((vec![a, b], last)); }
        }
    }
    for (nonfinal, last) in &shapes {
        for follow in 0..3u8 {
            let mut stream = Vec::new();
            let mut payload = Vec::new();
            for n in nonfinal {
                let d = fresh(*n);
                payload.extend_from_slice(&d);
                write_pdu(&mut stream, &pdata(&d, false)).expect("write");
            }
            let d = fresh(*last);
            payload.extend_from_slice(&d);
            write_pdu(&mut stream, &pdata(&d, true)).expect("write");
            let msg_end = stream.len();
            match follow {
                1 => { let d = fresh(2); write_pdu(&mut stream, &pdata(&d, true)).expect("write"); }
                2 => { write_pdu(&mut stream, &Pdu::ReleaseRQ).expect("write"); }
                _ => {}
            }
            let rest = stream[msg_end..].to_vec();
            for step in [1usize, 5, 7, 13, 1 << 20] {
                for cap in [1usize, 2, 64] {
                    cases += 1;
                    let mut transport = Segmented { data: stream.clone(), step, pos: 0 };
                    let mut read_buffer = BytesMut::new();
                    let mut got = Vec::new();
                    let mut err = None;
                    {
                        let mut reader = PDataReader::new(&mut transport, MAXIMUM_PDU_SIZE, &mut read_buffer);
                        let mut buf = vec![0u8; cap];
                        let mut guard = 0;
                        loop {
                            guard += 1;
                            if guard > 1000 { err = Some("no end of stream after 1000 reads".to_string()); break; }
                            match reader.read(&mut buf) {
                                Ok(0) => break,
                                Ok(n) => got.extend_from_slice(&buf[..n]),
                                Err(e) => { err = Some(e.to_string()); break; }
                            }
                        }
                    }
                    let mut left = read_buffer.to_vec();
                    left.extend_from_slice(&transport.data[transport.pos..]);
                    if err.is_some() || got != payload || left != rest {
                        bad += 1;
                        if bad <= 6 {
                            println!(
                                "WITNESS unit=C26.reader_messages non-final value sizes {:?}, final value size {}, followed by {}; transport segments of {} bytes, caller buffer {}: read {:02X?} (error: {:?}), expected payload {:02X?}; left for the next receive {:02X?}, expected {:02X?}",
                                nonfinal, last, ["nothing", "a second P-DATA message", "A-RELEASE-RQ"][follow as usize], step, cap, got, err, payload, left, rest
                            );
                        }
                    }
                }
            }
        }
    }
    println!("EXHAUSTIVE unit=C26.reader_messages cases={} mismatches={}", cases, bad);
}
