//! Native stand-in for C05 on the compiled code (not a deductive result; bounded): hostile inputs must
//! never make a reading entry point panic.
//!  (1) text: every string of up to 6 characters over {0 1 9 . - + space \ e-acute} through
//!      parse_date_partial / parse_time_partial / parse_datetime_partial, every string of up to 6 characters
//!      over {0 a F g ( ) , space e-acute} and every single-character mutation of the three valid tag forms
//!      through Tag::from_str;
//!  (2) PDUs: every truncation and every single-byte mutation (to 00, 01, 7F, 80, FF) of well-formed PDUs
//!      of every type through read_pdu (strict and not);
//!  (3) data sets and files: every truncation and every single-byte mutation (to 00, 01, FF) of a small
//!      object (nested sequence, odd-length value, native / encapsulated pixel data) encoded in Implicit VR
//!      LE, Explicit VR LE, Explicit VR BE and as a complete file, through InMemDicomObject::
//!      read_dataset_with_ts (which drives the DataSetReader), the DataSetReader with flexible VR detection,
//!      dicom_object::from_reader and the LazyDataSetReader.
//! Any panic is reported with the input that caused it.
use dicom_core::value::deserialize::{parse_date_partial, parse_datetime_partial, parse_time_partial};
use dicom_core::value::{DataSetSequence, PixelFragmentSequence, Value};
use dicom_core::{dicom_value, DataElement, Length, PrimitiveValue, Tag, VR};
use dicom_encoding::transfer_syntax::TransferSyntax;
use dicom_object::{FileMetaTableBuilder, InMemDicomObject};
use dicom_parser::dataset::lazy_read::LazyDataSetReader;
use dicom_transfer_syntax_registry::entries;
use dicom_ul::pdu::*;
use std::io::Cursor;
use std::panic::{catch_unwind, AssertUnwindSafe};

struct Tally { cases: u64, bad: u64 }
impl Tally {
    fn fail(&mut self, what: String) {
        self.bad += 1;
        if self.bad <= 10 { println!("WITNESS unit=C05.hostile {}", what); }
    }
}

fn strings(alphabet: &[char], max: usize, f: &mut dyn FnMut(&str)) {
    fn rec(alphabet: &[char], cur: &mut String, left: usize, f: &mut dyn FnMut(&str)) {
        f(cur);
        if left == 0 { return; }
        for c in alphabet {
            cur.push(*c);
            rec(alphabet, cur, left - 1, f);
            cur.pop();
        }
    }
    rec(alphabet, &mut String::new(), max, f);
}

fn object(with_pixels: bool) -> InMemDicomObject {
    let item = InMemDicomObject::from_element_iter([
        DataElement::new(Tag(0x0008, 0x1150), VR::UI, PrimitiveValue::from("1.2.840.10008.5.1.4.1.1.7")),
        DataElement::new(Tag(0x0008, 0x1155), VR::UI, PrimitiveValue::from("1.2.3.4.5")),
    ]);
    let mut elems = vec![
        DataElement::new(Tag(0x0008, 0x0016), VR::UI, PrimitiveValue::from("1.2.840.10008.5.1.4.1.1.7")),
        DataElement::new(Tag(0x0008, 0x0018), VR::UI, PrimitiveValue::from("2.25.123")),
        DataElement::new(Tag(0x0008, 0x0020), VR::DA, PrimitiveValue::from("19991231")),
        DataElement::new(Tag(0x0008, 0x0030), VR::TM, PrimitiveValue::from("101530.25")),
        DataElement::new(Tag(0x0008, 0x1115), VR::SQ, Value::from(DataSetSequence::new(vec![item], Length::UNDEFINED))),
        DataElement::new(Tag(0x0010, 0x0010), VR::PN, PrimitiveValue::from("Doe^John")),
        DataElement::new(Tag(0x0020, 0x0013), VR::IS, PrimitiveValue::from("7")),
        DataElement::new(Tag(0x0028, 0x0010), VR::US, dicom_value!(U16, [2])),
        DataElement::new(Tag(0x0028, 0x0011), VR::US, dicom_value!(U16, [3])),
        DataElement::new(Tag(0x0042, 0x0011), VR::OB, dicom_value!(U8, [1, 2, 3])),
    ];
    if with_pixels {
        elems.push(DataElement::new(Tag(0x7FE0, 0x0010), VR::OB, Value::from(PixelFragmentSequence::new(vec![0u32], vec![vec![1u8, 2, 3, 4], vec![5u8, 6]]))));
    } else {
        elems.push(DataElement::new(Tag(0x7FE0, 0x0010), VR::OW, dicom_value!(U16, [1, 2, 3, 4, 5, 6])));
    }
    InMemDicomObject::from_element_iter(elems)
}

fn mutations(data: &[u8], values: &[u8], f: &mut dyn FnMut(&[u8], String)) {
    for cut in 0..data.len() { f(&data[..cut], format!("truncated to {} of {} bytes", cut, data.len())); }
    let mut m = data.to_vec();
    for i in 0..data.len() {
        for v in values {
            if data[i] == *v { continue; }
            m[i] = *v;
            f(&m, format!("byte {} of {} changed from {:02X} to {:02X}", i, data.len(), data[i], v));
        }
        m[i] = data[i];
    }
}

fn hex(b: &[u8]) -> String { b.iter().take(160).map(|x| format!("{:02X}", x)).collect::<Vec<_>>().join("") }

fn main() {
    std::panic::set_hook(Box::new(|_| {}));
    let mut t = Tally { cases: 0, bad: 0 };
    // `quick`: strings of up to 5 characters and data-set mutations to 00 / 01 (a hostile top length byte of FF costs a 4 GiB
    // allocation per case); without the argument: up to 6 characters and mutations to 00 / 01 / FF
    let quick = std::env::args().any(|a| a == "quick");
    let text_max = if quick { 5 } else { 6 };
    let ds_values: &[u8] = if quick { &[0x00, 0x01] } else { &[0x00, 0x01, 0xFF] };
    // (1) text
    strings(&['0', '1', '9', '.', '-', '+', ' ', '\\', 'é'], text_max, &mut |s: &str| {
        t.cases += 1;
        let b = s.as_bytes();
        if catch_unwind(|| { let _ = parse_date_partial(b); }).is_err() { t.fail(format!("parse_date_partial({:?}) panicked", s)); }
        if catch_unwind(|| { let _ = parse_time_partial(b); }).is_err() { t.fail(format!("parse_time_partial({:?}) panicked", s)); }
        if catch_unwind(|| { let _ = parse_datetime_partial(b); }).is_err() { t.fail(format!("parse_datetime_partial({:?}) panicked", s)); }
    });
    for base in ["19991231235959.123456+0100", "199912312359", "1999123123.5", "19991231-0500", "235960.999999"] {
        let chars: Vec<char> = base.chars().collect();
        for i in 0..=chars.len() { for c in ['x', ' ', '.', '+', '-', 'é', '\0'] {
            let mut v = chars.clone();
            if i < v.len() { v[i] = c; } else { v.push(c); }
            let s: String = v.iter().collect();
            t.cases += 1;
            let b = s.as_bytes();
            if catch_unwind(|| { let _ = parse_date_partial(b); let _ = parse_time_partial(b); let _ = parse_datetime_partial(b); }).is_err() { t.fail(format!("date/time parser panicked on {:?}", s)); }
        } }
    }
    strings(&['0', 'a', 'F', 'g', '(', ')', ',', ' ', 'é'], text_max, &mut |s: &str| {
        t.cases += 1;
        if catch_unwind(|| { let _ = s.parse::<Tag>(); }).is_err() { t.fail(format!("Tag::from_str({:?}) panicked", s)); }
    });
    for base in ["(0008,0018)", "0008,0018", "00080018"] {
        let chars: Vec<char> = base.chars().collect();
        for i in 0..=chars.len() { for c in ['g', ' ', ',', '(', ')', 'é', '😀', '\0'] {
            for insert in [false, true] {
                let mut v = chars.clone();
                if insert || i >= v.len() { v.insert(i.min(v.len()), c); } else { v[i] = c; }
                let s: String = v.iter().collect();
                t.cases += 1;
                if catch_unwind(|| { let _ = s.parse::<Tag>(); }).is_err() { t.fail(format!("Tag::from_str({:?}) panicked", s)); }
            }
        } }
    }
    // (2) PDUs
    let pdus = vec![
        Pdu::ReleaseRQ, Pdu::AbortRQ { source: AbortRQSource::ServiceProvider(AbortRQServiceProviderReason::UnexpectedPdu) },
        Pdu::AssociationRJ(AssociationRJ { result: AssociationRJResult::Permanent, source: AssociationRJSource::ServiceUser(AssociationRJServiceUserReason::NoReasonGiven) }),
        Pdu::PData { data: vec![PDataValue { presentation_context_id: 1, value_type: PDataValueType::Data, is_last: true, data: vec![1, 2, 3] },
                                PDataValue { presentation_context_id: 3, value_type: PDataValueType::Command, is_last: false, data: vec![] }] },
        Pdu::Unknown { pdu_type: 0x7F, data: vec![9, 9] },
        Pdu::AssociationRQ(AssociationRQ { protocol_version: 1, calling_ae_title: "CALLING".into(), called_ae_title: "CALLED".into(), application_context_name: "1.2.840.10008.3.1.1.1".into(),
            presentation_contexts: vec![PresentationContextProposed { id: 1, abstract_syntax: "1.2.840.10008.1.1".into(), transfer_syntaxes: vec!["1.2.840.10008.1.2".into(), "1.2.840.10008.1.2.1".into()] }],
            user_variables: vec![UserVariableItem::MaxLength(16384), UserVariableItem::ImplementationClassUID("1.2.3".into()), UserVariableItem::ImplementationVersionName("V".into()),
                UserVariableItem::SopClassExtendedNegotiationSubItem("1.2.3".into(), vec![1, 2]), UserVariableItem::ScuScpRoleSelectionSubItem("1.2.3".into(), RequestorRoles { scu: true, scp: true }),
                UserVariableItem::UserIdentityItem(UserIdentity::new(true, UserIdentityType::UsernamePassword, b"u".to_vec(), b"p".to_vec())), UserVariableItem::Unknown(0x59, vec![1])] }),
        Pdu::AssociationAC(AssociationAC { protocol_version: 1, calling_ae_title: "CALLING".into(), called_ae_title: "CALLED".into(), application_context_name: "1.2.840.10008.3.1.1.1".into(),
            presentation_contexts: vec![PresentationContextResult { id: 1, reason: PresentationContextResultReason::Acceptance, transfer_syntax: "1.2.840.10008.1.2".into() }],
            user_variables: vec![UserVariableItem::MaxLength(16384), UserVariableItem::ImplementationClassUID("1.2.3".into())] }),
    ];
    for p in &pdus {
        let mut bytes = Vec::new();
        write_pdu(&mut bytes, p).expect("write");
        mutations(&bytes, &[0x00, 0x01, 0x7F, 0x80, 0xFF], &mut |m: &[u8], how: String| {
            for strict in [true, false] {
                t.cases += 1;
                if catch_unwind(|| { let _ = read_pdu(&mut Cursor::new(m), DEFAULT_MAX_PDU, strict); }).is_err() {
                    t.fail(format!("read_pdu (strict={}) panicked on {} ({}): {}", strict, p.short_description(), how, hex(m)));
                }
            }
        });
    }
    // (3) data sets and files: cases are independent and some are slow (a hostile 32-bit length makes the readers allocate and
    // zero up to 4 GiB before they notice the end of the stream), so they run on 4 threads
    let syntaxes: [(TransferSyntax, &str); 3] = [
        (entries::IMPLICIT_VR_LITTLE_ENDIAN.erased(), "Implicit VR LE"), (entries::EXPLICIT_VR_LITTLE_ENDIAN.erased(), "Explicit VR LE"), (entries::EXPLICIT_VR_BIG_ENDIAN.erased(), "Explicit VR BE"),
    ];
    // (kind, input, description): kind 0..=2 = data set in syntaxes[kind], 3 = file content after the preamble
    let mut jobs: Vec<(usize, Vec<u8>, String)> = Vec::new();
    for with_pixels in [false, true] {
        let obj = object(with_pixels);
        for (k, (ts, _)) in syntaxes.iter().enumerate() {
            let mut bytes = Vec::new();
            obj.write_dataset_with_ts(&mut bytes, ts).expect("write data set");
            mutations(&bytes, ds_values, &mut |m: &[u8], how: String| jobs.push((k, m.to_vec(), how)));
        }
        let file = obj.clone().with_meta(FileMetaTableBuilder::new().transfer_syntax(if with_pixels { "1.2.840.10008.1.2.4.50" } else { "1.2.840.10008.1.2.1" })).expect("meta");
        let mut bytes = Vec::new();
        file.write_all(&mut bytes).expect("write file");
        mutations(&bytes[128..], ds_values, &mut |m: &[u8], how: String| jobs.push((3, m.to_vec(), how)));
    }
    t.cases += jobs.len() as u64;
    let next = std::sync::atomic::AtomicUsize::new(0);
    let failures: std::sync::Mutex<Vec<String>> = std::sync::Mutex::new(Vec::new());
    std::thread::scope(|sc| {
        for _ in 0..4 {
            sc.spawn(|| loop {
                let i = next.fetch_add(1, std::sync::atomic::Ordering::Relaxed);
                if i >= jobs.len() { break; }
                let (kind, m, how) = &jobs[i];
                let m: &[u8] = &m[..];
                if *kind < 3 {
                    let (ts, name) = &syntaxes[*kind];
                    if catch_unwind(AssertUnwindSafe(|| { let _ = InMemDicomObject::read_dataset_with_ts(m, ts); })).is_err() {
                        failures.lock().unwrap().push(format!("InMemDicomObject::read_dataset_with_ts ({}) panicked ({}): {}", name, how, hex(m)));
                    }
                    if *kind < 2 && catch_unwind(AssertUnwindSafe(|| {
                        // flexible VR detection (little endian syntaxes)
                        let options = dicom_parser::dataset::read::DataSetReaderOptions::default().flexible_decoding(true);
                        if let Ok(r) = dicom_parser::dataset::read::DataSetReader::new_with_ts_options(m, ts, options) { let mut n = 0; for tok in r { n += 1; if tok.is_err() || n > 10_000 { break; } } }
                    })).is_err() {
                        failures.lock().unwrap().push(format!("DataSetReader with flexible VR detection ({}) panicked ({}): {}", name, how, hex(m)));
                    }
                    if catch_unwind(AssertUnwindSafe(|| {
                        if let Ok(mut r) = LazyDataSetReader::new_with_ts(Cursor::new(m), ts) {
                            let mut n = 0;
                            while let Some(tok) = r.advance() { n += 1; match tok { Ok(tok) => { if tok.skip().is_err() { break; } } Err(_) => break } if n > 10_000 { break; } }
                        }
                    })).is_err() {
                        failures.lock().unwrap().push(format!("LazyDataSetReader ({}) panicked ({}): {}", name, how, hex(m)));
                    }
                } else {
                    let mut with_preamble = vec![0u8; 128];
                    with_preamble.extend_from_slice(m);
                    if catch_unwind(AssertUnwindSafe(|| { let _ = dicom_object::from_reader(&with_preamble[..]); })).is_err() {
                        failures.lock().unwrap().push(format!("dicom_object::from_reader panicked on a file ({}, after the preamble): {}", how, hex(m)));
                    }
                }
            });
        }
    });
    for f in failures.into_inner().unwrap() { t.fail(f); }
    println!("EXHAUSTIVE unit=C05.hostile cases={} mismatches={}", t.cases, t.bad);
}
