//! Native cross-check for C04 at element level on the compiled code (stand-in; not a deductive result):
//! the real `StatefulEncoder::encode_primitive_element` with the three real encoders (explicit LE,
//! explicit BE, implicit LE) over every VR-appropriate value shape of small size — text (single and
//! multi-valued, ASCII and ISO_IR 100 non-ASCII), binary numbers of every width (0-3 items), bytes (0-5),
//! tags, partial dates / times / date-times (1-2 items), and binary numbers written under DS / IS.
//! An independent reader of the PS3.5 element layout then checks: the header length is even and equals the
//! number of value bytes that follow; the value bytes are the expected encoding, followed by at most one
//! padding byte, NUL for UI and binary values and space for text / DA / DT / TM; `bytes_written()` equals
//! the number of bytes handed to the sink.
use dicom_core::value::{DicomDate, DicomDateTime, DicomTime, PrimitiveValue, C};
use dicom_core::{DataElementHeader, Length, Tag, VR};
use dicom_encoding::encode::explicit_be::ExplicitVRBigEndianEncoder;
use dicom_encoding::encode::explicit_le::ExplicitVRLittleEndianEncoder;
use dicom_encoding::encode::implicit_le::ImplicitVRLittleEndianEncoder;
use dicom_encoding::encode::EncoderFor;
use dicom_encoding::text::SpecificCharacterSet;
use dicom_parser::stateful::encode::StatefulEncoder;

#[derive(Clone, Copy, PartialEq, Debug)]
enum Codec { ExplicitLE, ExplicitBE, ImplicitLE }

struct Tally { cases: u64, bad: u64 }
impl Tally {
    fn fail(&mut self, what: String) {
        self.bad += 1;
        if self.bad <= 8 { println!("WITNESS unit=C04.elements {}", what); }
    }
}

fn short_form(vr: VR) -> bool {
    use VR::*;
    matches!(vr, AE | AS | AT | CS | DA | DS | DT | FL | FD | IS | LO | LT | PN | SH | SL | SS | ST | TM | UI | UL | US)
}

/// encode one element with the real stateful encoder; returns (bytes, bytes_written) or the error text
fn encode(codec: Codec, cs: SpecificCharacterSet, vr: VR, value: &PrimitiveValue) -> Result<(Vec<u8>, u64), String> {
    let de = DataElementHeader { tag: Tag(0x0011, 0x1010), vr, len: Length(0) };
    let mut out = Vec::new();
    let n = match codec {
        Codec::ExplicitLE => {
            let mut e = StatefulEncoder::new(&mut out, EncoderFor::new(ExplicitVRLittleEndianEncoder::default()), cs);
            e.encode_primitive_element(&de, value).map_err(|e| e.to_string())?;
            e.bytes_written()
        }
        Codec::ExplicitBE => {
            let mut e = StatefulEncoder::new(&mut out, EncoderFor::new(ExplicitVRBigEndianEncoder::default()), cs);
            e.encode_primitive_element(&de, value).map_err(|e| e.to_string())?;
            e.bytes_written()
        }
        Codec::ImplicitLE => {
            let mut e = StatefulEncoder::new(&mut out, EncoderFor::new(ImplicitVRLittleEndianEncoder::default()), cs);
            e.encode_primitive_element(&de, value).map_err(|e| e.to_string())?;
            e.bytes_written()
        }
    };
    Ok((out, n))
}

/// independent reader of one element header: (header size, declared length)
fn read_header(codec: Codec, vr: VR, b: &[u8]) -> Option<(usize, u32)> {
    let be = codec == Codec::ExplicitBE;
    let u16_at = |i: usize| -> Option<u16> { let s = b.get(i..i + 2)?; Some(if be { u16::from_be_bytes([s[0], s[1]]) } else { u16::from_le_bytes([s[0], s[1]]) }) };
    let u32_at = |i: usize| -> Option<u32> { let s = b.get(i..i + 4)?; Some(if be { u32::from_be_bytes([s[0], s[1], s[2], s[3]]) } else { u32::from_le_bytes([s[0], s[1], s[2], s[3]]) }) };
    if u16_at(0)? != 0x0011 || u16_at(2)? != 0x1010 { return None; }
    match codec {
        Codec::ImplicitLE => Some((8, u32_at(4)?)),
        _ => {
            if b.get(4..6)? != vr.to_bytes() { return None; }
            if short_form(vr) { Some((8, u16_at(6)? as u32)) } else { if b.get(6..8)? != [0, 0] { return None; } Some((12, u32_at(8)?)) }
        }
    }
}

fn check(t: &mut Tally, codec: Codec, cs: SpecificCharacterSet, vr: VR, value: &PrimitiveValue, expect: &[u8], pad: u8, what: &str) {
    t.cases += 1;
    let label = format!("{:?} VR {} {}", codec, vr.to_string(), what);
    let (out, reported) = match encode(codec, cs, vr, value) {
        Ok(x) => x,
        Err(e) => return t.fail(format!("{}: encoding failed: {}", label, e)),
    };
    if reported != out.len() as u64 { return t.fail(format!("{}: bytes_written() = {} but {} bytes were written: {:02X?}", label, reported, out.len(), out)); }
    let (hs, len) = match read_header(codec, vr, &out) {
        Some(x) => x,
        None => return t.fail(format!("{}: header is not the PS3.5 layout: {:02X?}", label, out)),
    };
    let body = &out[hs..];
    if len % 2 != 0 { return t.fail(format!("{}: declared length {} is odd: {:02X?}", label, len, out)); }
    if len as usize != body.len() { return t.fail(format!("{}: header declares {} value bytes, {} follow: {:02X?}", label, len, body.len(), out)); }
    let mut want = expect.to_vec();
    if want.len() % 2 == 1 { want.push(pad); }
    if body != &want[..] { t.fail(format!("{}: value bytes {:02X?}, expected {:02X?} (padding byte {:02X})", label, body, want, pad)); }
}

fn main() {
    let mut t = Tally { cases: 0, bad: 0 };
    let codecs = [Codec::ExplicitLE, Codec::ExplicitBE, Codec::ImplicitLE];
    let ascii = ["", "A", "AB", "ABC", "ABCD", "ABCDE"];
    let text_vrs = [VR::AE, VR::AS, VR::CS, VR::DA, VR::DS, VR::DT, VR::IS, VR::LO, VR::LT, VR::PN, VR::SH, VR::ST, VR::TM, VR::UC, VR::UI, VR::UR, VR::UT];
    for &codec in &codecs {
        // text given for an element of a BINARY value representation (what `apply(SetStr)` builds for an unknown private tag):
        // "NUL for UI and binary VRs" — the padding byte follows the VR of the element, not the kind of value at hand
        for &vr in &[VR::UN, VR::OB, VR::OW, VR::OD, VR::OF, VR::OL, VR::OV] {
            for s in ascii { check(&mut t, codec, SpecificCharacterSet::default(), vr, &PrimitiveValue::Str(s.to_string()), s.as_bytes(), 0, &format!("Str {:?} under a binary VR", s)); }
            check(&mut t, codec, SpecificCharacterSet::default(), vr, &PrimitiveValue::Strs(C::from_vec(vec!["A".to_string(), "B".to_string()])), b"A\\B", 0, "Strs [\"A\", \"B\"] under a binary VR");
        }
        // single and multi-valued ASCII text
        for &vr in &text_vrs {
            let pad = if vr == VR::UI { 0 } else { b' ' };
            for s in ascii {
                check(&mut t, codec, SpecificCharacterSet::default(), vr, &PrimitiveValue::Str(s.to_string()), s.as_bytes(), pad, &format!("Str {:?}", s));
            }
            for a in &ascii[..4] { for b in &ascii[..3] {
                let joined = format!("{}\\{}", a, b);
                check(&mut t, codec, SpecificCharacterSet::default(), vr, &PrimitiveValue::Strs(C::from_vec(vec![a.to_string(), b.to_string()])), joined.as_bytes(), pad, &format!("Strs [{:?}, {:?}]", a, b));
                let joined3 = format!("{}\\{}\\X", a, b);
                check(&mut t, codec, SpecificCharacterSet::default(), vr, &PrimitiveValue::Strs(C::from_vec(vec![a.to_string(), b.to_string(), "X".to_string()])), joined3.as_bytes(), pad, &format!("Strs [{:?}, {:?}, \"X\"]", a, b));
            } }
            check(&mut t, codec, SpecificCharacterSet::default(), vr, &PrimitiveValue::Strs(C::from_vec(vec!["ABC".to_string()])), b"ABC", pad, "Strs [\"ABC\"]");
        }
        // non-ASCII text in ISO_IR 100: one byte per character on the wire, two in memory
        for &vr in &[VR::LO, VR::PN, VR::SH, VR::ST, VR::LT, VR::UT, VR::UC] {
            for (s, bytes) in [("é", vec![0xE9u8]), ("Jé", vec![b'J', 0xE9]), ("José", vec![b'J', b'o', b's', 0xE9]), ("éàü", vec![0xE9, 0xE0, 0xFC]), ("Joséf", vec![b'J', b'o', b's', 0xE9, b'f'])] {
                check(&mut t, codec, SpecificCharacterSet::ISO_IR_100, vr, &PrimitiveValue::Str(s.to_string()), &bytes, b' ', &format!("ISO_IR 100 Str {:?}", s));
                let mut two = bytes.clone(); two.push(b'\\'); two.extend_from_slice(&bytes);
                check(&mut t, codec, SpecificCharacterSet::ISO_IR_100, vr, &PrimitiveValue::Strs(C::from_vec(vec![s.to_string(), s.to_string()])), &two, b' ', &format!("ISO_IR 100 Strs [{:?}; 2]", s));
            }
        }
        let be = codec == Codec::ExplicitBE;
        // bytes
        for n in 0..=5usize {
            let v: Vec<u8> = (1..=n as u8).collect();
            for &vr in &[VR::OB, VR::UN] {
                check(&mut t, codec, SpecificCharacterSet::default(), vr, &PrimitiveValue::U8(C::from_vec(v.clone())), &v, 0, &format!("U8 x{}", n));
            }
        }
        // binary numbers
        macro_rules! nums {
            ($var:ident, $ty:ty, $vrs:expr, $vals:expr) => {
                for n in 0..=3usize {
                    let vals: Vec<$ty> = $vals[..n].to_vec();
                    let mut bytes = Vec::new();
                    for v in &vals { if be { bytes.extend_from_slice(&v.to_be_bytes()) } else { bytes.extend_from_slice(&v.to_le_bytes()) } }
                    for &vr in $vrs.iter() {
                        check(&mut t, codec, SpecificCharacterSet::default(), vr, &PrimitiveValue::$var(C::from_vec(vals.clone())), &bytes, 0, &format!("{} x{}", stringify!($var), n));
                    }
                }
            };
        }
        nums!(U16, u16, [VR::US, VR::OW], [0x0102u16, 0xFFFE, 7]);
        nums!(I16, i16, [VR::SS], [-2i16, 0x0102, 7]);
        nums!(U32, u32, [VR::UL, VR::OL], [0x01020304u32, 0xFFFF_FFFE, 7]);
        nums!(I32, i32, [VR::SL], [-2i32, 0x01020304, 7]);
        nums!(U64, u64, [VR::UV, VR::OV], [0x0102030405060708u64, u64::MAX - 1, 7]);
        nums!(I64, i64, [VR::SV], [-2i64, 0x0102030405060708, 7]);
        nums!(F32, f32, [VR::FL, VR::OF], [1.5f32, -0.25, 7.0]);
        nums!(F64, f64, [VR::FD, VR::OD], [1.5f64, -0.25, 7.0]);
        for n in 0..=2usize {
            let tags = [Tag(0x0008, 0x0018), Tag(0x7FE0, 0x0010)];
            let mut bytes = Vec::new();
            for tg in &tags[..n] { for w in [tg.0, tg.1] { if be { bytes.extend_from_slice(&w.to_be_bytes()) } else { bytes.extend_from_slice(&w.to_le_bytes()) } } }
            check(&mut t, codec, SpecificCharacterSet::default(), VR::AT, &PrimitiveValue::Tags(C::from_vec(tags[..n].to_vec())), &bytes, 0, &format!("Tags x{}", n));
        }
        // partial dates, times, date-times: text, space padded
        let dates = [DicomDate::from_y(1999).unwrap(), DicomDate::from_ym(1999, 12).unwrap(), DicomDate::from_ymd(1999, 12, 31).unwrap()];
        let times = [DicomTime::from_h(7).unwrap(), DicomTime::from_hms(7, 8, 9).unwrap(), DicomTime::from_hms_milli(7, 8, 9, 123).unwrap(), DicomTime::from_hms_micro(23, 59, 60, 1).unwrap()];
        for a in &dates {
            check(&mut t, codec, SpecificCharacterSet::default(), VR::DA, &PrimitiveValue::Date(C::from_vec(vec![*a])), a.to_encoded().as_bytes(), b' ', &format!("Date [{}]", a.to_encoded()));
            for b in &dates {
                let s = format!("{}\\{}", a.to_encoded(), b.to_encoded());
                check(&mut t, codec, SpecificCharacterSet::default(), VR::DA, &PrimitiveValue::Date(C::from_vec(vec![*a, *b])), s.as_bytes(), b' ', &format!("Date [{}]", s));
            }
        }
        for a in &times {
            check(&mut t, codec, SpecificCharacterSet::default(), VR::TM, &PrimitiveValue::Time(C::from_vec(vec![*a])), a.to_encoded().as_bytes(), b' ', &format!("Time [{}]", a.to_encoded()));
            for b in &times {
                let s = format!("{}\\{}", a.to_encoded(), b.to_encoded());
                check(&mut t, codec, SpecificCharacterSet::default(), VR::TM, &PrimitiveValue::Time(C::from_vec(vec![*a, *b])), s.as_bytes(), b' ', &format!("Time [{}]", s));
            }
            for d in &dates[2..] {
                let dt = DicomDateTime::from_date_and_time(*d, *a).unwrap();
                check(&mut t, codec, SpecificCharacterSet::default(), VR::DT, &PrimitiveValue::DateTime(C::from_vec(vec![dt])), dt.to_encoded().as_bytes(), b' ', &format!("DateTime [{}]", dt.to_encoded()));
            }
        }
        for d in &dates {
            let dt = DicomDateTime::from_date(*d);
            check(&mut t, codec, SpecificCharacterSet::default(), VR::DT, &PrimitiveValue::DateTime(C::from_vec(vec![dt])), dt.to_encoded().as_bytes(), b' ', &format!("DateTime [{}]", dt.to_encoded()));
        }
        // binary numbers under DS / IS are written as text
        for &vr in &[VR::DS, VR::IS] {
            check(&mut t, codec, SpecificCharacterSet::default(), vr, &PrimitiveValue::U16(C::from_vec(vec![5])), b"5", b' ', "U16 [5] as text");
            check(&mut t, codec, SpecificCharacterSet::default(), vr, &PrimitiveValue::U16(C::from_vec(vec![1, 22, 333])), b"1\\22\\333", b' ', "U16 [1, 22, 333] as text");
            check(&mut t, codec, SpecificCharacterSet::default(), vr, &PrimitiveValue::I32(C::from_vec(vec![-12, 7])), b"-12\\7", b' ', "I32 [-12, 7] as text");
            check(&mut t, codec, SpecificCharacterSet::default(), vr, &PrimitiveValue::Empty, b"", b' ', "Empty");
        }
        for &vr in &[VR::LO, VR::OB, VR::US, VR::UI, VR::SQ] {
            check(&mut t, codec, SpecificCharacterSet::default(), vr, &PrimitiveValue::Empty, b"", 0, "Empty");
        }
    }
    println!("EXHAUSTIVE unit=C04.elements cases={} mismatches={}", t.cases, t.bad);
}
