//! Bounded native stand-in for C20 (Kani cannot finish even a 2-pixel image within 900 s): enumerate
//! small images (8/16 bits allocated, 1/3 samples per pixel, 1-3 pixels, 1-2 frames), encode them as
//! RLE Lossless per PS3.5 Annex G with several literal/replicate splits (and -128 no-ops), and compare
//! the real adapter's `decode` and `decode_frame` with the little-endian pixel-interleaved samples.
use dicom_encoding::adapters::{PixelDataObject, PixelDataReader, RawPixelData};
use dicom_encoding::transfer_syntax::Codec;
use dicom_transfer_syntax_registry::entries::RLE_LOSSLESS;
use std::borrow::Cow;

struct Obj {
    rows: u16,
    cols: u16,
    spp: u16,
    bits: u16,
    fragments: Vec<Vec<u8>>,
}
impl PixelDataObject for Obj {
    fn transfer_syntax_uid(&self) -> &str {
        "1.2.840.10008.1.2.5"
    }
    fn rows(&self) -> Option<u16> {
        Some(self.rows)
    }
    fn cols(&self) -> Option<u16> {
        Some(self.cols)
    }
    fn samples_per_pixel(&self) -> Option<u16> {
        Some(self.spp)
    }
    fn bits_allocated(&self) -> Option<u16> {
        Some(self.bits)
    }
    fn bits_stored(&self) -> Option<u16> {
        Some(self.bits)
    }
    fn photometric_interpretation(&self) -> Option<&str> {
        Some(if self.spp == 1 { "MONOCHROME2" } else { "RGB" })
    }
    fn number_of_frames(&self) -> Option<u32> {
        Some(self.fragments.len() as u32)
    }
    fn number_of_fragments(&self) -> Option<u32> {
        Some(self.fragments.len() as u32)
    }
    fn fragment(&self, i: usize) -> Option<Cow<'_, [u8]>> {
        self.fragments.get(i).map(|f| Cow::Borrowed(&f[..]))
    }
    fn offset_table(&self) -> Option<Cow<'_, [u32]>> {
        None
    }
    fn raw_pixel_data(&self) -> Option<RawPixelData> {
        None
    }
}

/// PackBits per Annex G.3.1 with a chosen split: 0 = one literal run, 1 = one literal run per byte,
/// 2 = greedy replicate runs (>= 2 equal bytes), 3 = as 0 with a leading -128 no-op
fn packbits(seg: &[u8], split: u8) -> Vec<u8> {
    let mut out = Vec::new();
    match split {
        1 => {
            for b in seg {
                out.push(0);
                out.push(*b);
            }
        }
        2 => {
            let mut i = 0;
            while i < seg.len() {
                let mut j = i;
                while j + 1 < seg.len() && seg[j + 1] == seg[i] && j - i < 127 {
                    j += 1;
                }
                let n = j - i + 1;
                if n >= 2 {
                    out.push((1i16 - n as i16) as i8 as u8);
                    out.push(seg[i]);
                } else {
                    out.push(0);
                    out.push(seg[i]);
                }
                i = j + 1;
            }
        }
        _ => {
            if split == 3 {
                out.push(0x80);
            }
            out.push((seg.len() - 1) as u8);
            out.extend_from_slice(seg);
        }
    }
    if out.len() % 2 == 1 {
        out.push(0x80); // pad the segment to even length with a no-op
    }
    out
}

/// frame: `samples[pixel][sample]` -> Annex G fragment
fn encode_frame(px: &[Vec<u16>], spp: usize, bps: usize, split: u8) -> Vec<u8> {
    let mut segs: Vec<Vec<u8>> = Vec::new();
    for s in 0..spp {
        for byte in (0..bps).rev() {
            // most significant byte plane first
            segs.push(px.iter().map(|p| (p[s] >> (8 * byte)) as u8).collect());
        }
    }
    let mut header = vec![0u8; 64];
    header[0..4].copy_from_slice(&(segs.len() as u32).to_le_bytes());
    let mut body = Vec::new();
    for (k, seg) in segs.iter().enumerate() {
        header[4 + 4 * k..8 + 4 * k].copy_from_slice(&((64 + body.len()) as u32).to_le_bytes());
        body.extend(packbits(seg, split));
    }
    header.extend(body);
    header
}

fn main() {
    let reader = match RLE_LOSSLESS.codec() {
        Codec::EncapsulatedPixelData(Some(r), _) => r,
        _ => panic!("no RLE reader"),
    };
    let (mut cases, mut bad) = (0u64, 0u64);
    for bits in [8u16, 16] {
        for spp in [1usize, 3] {
            for npx in 1usize..=3 {
                for frames in 1usize..=2 {
                    for split in 0u8..4 {
                        for content in 0u8..3 {
                            let bps = (bits / 8) as usize;
                            // content 0: every byte unique (detects any misplacement); 1: all equal; 2: alternating
                            let mut counter = 0u16;
                            let mut img: Vec<Vec<Vec<u16>>> = Vec::new();
                            for _f in 0..frames {
                                let mut fr = Vec::new();
                                for _p in 0..npx {
                                    let mut p = Vec::new();
                                    for _s in 0..spp {
                                        let v: u16 = match content {
                                            0 => {
                                                counter += 1;
                                                let lo = counter;
                                                counter += 1;
                                                let hi = counter;
                                                if bps == 2 { (hi << 8) | lo } else { lo }
                                            }
                                            1 => if bps == 2 { 0x7F7F } else { 0x7F },
                                            _ => {
                                                counter += 1;
                                                if counter % 2 == 0 {
                                                    if bps == 2 { 0xFF00 } else { 0xFF }
                                                } else if bps == 2 {
                                                    0x00FF
                                                } else {
                                                    0x00
                                                }
                                            }
                                        };
                                        p.push(v);
                                    }
                                    fr.push(p);
                                }
                                img.push(fr);
                            }
                            let expected_frame = |f: usize| -> Vec<u8> {
                                let mut o = Vec::new();
                                for p in &img[f] {
                                    for s in p {
                                        o.push(*s as u8);
                                        if bps == 2 {
                                            o.push((*s >> 8) as u8);
                                        }
                                    }
                                }
                                o
                            };
                            let obj = Obj {
                                rows: 1,
                                cols: npx as u16,
                                spp: spp as u16,
                                bits,
                                fragments: img.iter().map(|fr| encode_frame(fr, spp, bps, split)).collect(),
                            };
                            cases += 1;
                            let mut whole = Vec::new();
                            let r = std::panic::catch_unwind(std::panic::AssertUnwindSafe(|| reader.decode(&obj, &mut whole).is_ok()));
                            let want: Vec<u8> = (0..frames).flat_map(|f| expected_frame(f)).collect();
                            let ok_whole = matches!(r, Ok(true)) && whole == want;
                            let mut concat = Vec::new();
                            let mut ok_frames = true;
                            for f in 0..frames {
                                let mut one = Vec::new();
                                let rf = std::panic::catch_unwind(std::panic::AssertUnwindSafe(|| {
                                    reader.decode_frame(&obj, f as u32, &mut one).is_ok()
                                }));
                                if !matches!(rf, Ok(true)) || one != expected_frame(f) {
                                    ok_frames = false;
                                }
                                concat.extend(one);
                            }
                            if !ok_whole || !ok_frames || concat != whole {
                                bad += 1;
                                if bad <= 6 {
                                    println!(
                                        "WITNESS unit=C20.rle bits={} samples_per_pixel={} pixels={} frames={} split={} content={} expected={:02X?} decode={:02X?} frames_concat={:02X?}",
                                        bits, spp, npx, frames, split, content, want, whole, concat
                                    );
                                }
                            }
                        }
                    }
                }
            }
        }
    }
    println!("EXHAUSTIVE unit=C20.rle cases={} mismatches={}", cases, bad);
}
