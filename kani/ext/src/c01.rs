//! C01 (value-codec layer) — scalar basic codecs: encode then decode is the identity for every
//! value, exactly 2/4/8 bytes are written and consumed, byte order per endianness.
use dicom_encoding::decode::basic::{BigEndianBasicDecoder, LittleEndianBasicDecoder};
use dicom_encoding::decode::BasicDecode;
use dicom_encoding::encode::basic::{BigEndianBasicEncoder, LittleEndianBasicEncoder};
use dicom_encoding::encode::BasicEncode;

macro_rules! scalar_roundtrip {
    ($name:ident, $enc:expr, $dec:expr, $efn:ident, $dfn:ident, $ty:ty, $n:expr, $big:expr, $bits:ident) => {
        #[kani::proof]
        #[kani::unwind(10)]
        pub fn $name() {
            let x: $ty = kani::any();
            let mut out = [0xA5u8; 10];
            let rem;
            let r = {
                let mut w = &mut out[..];
                let r = $enc.$efn(&mut w, x);
                rem = w.len();
                r
            };
            assert!(r.is_ok(), "C01.scalar: encoding into a large enough buffer succeeds");
            assert!(10 - rem == $n, "C01.scalar: a value of this type occupies exactly its size in bytes");
            // byte order per endianness: first byte is the most (BE) / least (LE) significant one
            let bits = x.$bits();
            let first = if $big { (bits >> (8 * ($n - 1))) as u8 } else { bits as u8 };
            assert!(out[0] == first, "C01.scalar: byte order follows the transfer syntax endianness");
            assert!(out[$n] == 0xA5, "C01.scalar: nothing written past the value");
            let mut s = &out[..];
            match $dec.$dfn(&mut s) {
                Ok(y) => {
                    assert!(y.$bits() == bits, "C01.scalar: decoding the encoded value returns the same value");
                    assert!(10 - s.len() == $n, "C01.scalar: decoding consumes exactly the value's bytes");
                    kani::cover!(true, "round trip reachable");
                }
                Err(e) => {
                    core::mem::forget(e);
                    assert!(false, "C01.scalar: an encoded value decodes");
                }
            }
        }
    };
}

trait Bits { type B; }
trait BitsU16 { fn b16(self) -> u64; }
impl BitsU16 for u16 { fn b16(self) -> u64 { self as u64 } }
impl BitsU16 for i16 { fn b16(self) -> u64 { self as u16 as u64 } }
trait BitsU32 { fn b32(self) -> u64; }
impl BitsU32 for u32 { fn b32(self) -> u64 { self as u64 } }
impl BitsU32 for i32 { fn b32(self) -> u64 { self as u32 as u64 } }
impl BitsU32 for f32 { fn b32(self) -> u64 { self.to_bits() as u64 } }
trait BitsU64 { fn b64(self) -> u64; }
impl BitsU64 for u64 { fn b64(self) -> u64 { self } }
impl BitsU64 for i64 { fn b64(self) -> u64 { self as u64 } }
impl BitsU64 for f64 { fn b64(self) -> u64 { self.to_bits() } }

scalar_roundtrip!(c01_us_le, LittleEndianBasicEncoder, LittleEndianBasicDecoder, encode_us, decode_us, u16, 2, false, b16);
scalar_roundtrip!(c01_us_be, BigEndianBasicEncoder, BigEndianBasicDecoder, encode_us, decode_us, u16, 2, true, b16);
scalar_roundtrip!(c01_ss_le, LittleEndianBasicEncoder, LittleEndianBasicDecoder, encode_ss, decode_ss, i16, 2, false, b16);
scalar_roundtrip!(c01_ss_be, BigEndianBasicEncoder, BigEndianBasicDecoder, encode_ss, decode_ss, i16, 2, true, b16);
scalar_roundtrip!(c01_ul_le, LittleEndianBasicEncoder, LittleEndianBasicDecoder, encode_ul, decode_ul, u32, 4, false, b32);
scalar_roundtrip!(c01_ul_be, BigEndianBasicEncoder, BigEndianBasicDecoder, encode_ul, decode_ul, u32, 4, true, b32);
scalar_roundtrip!(c01_sl_le, LittleEndianBasicEncoder, LittleEndianBasicDecoder, encode_sl, decode_sl, i32, 4, false, b32);
scalar_roundtrip!(c01_sl_be, BigEndianBasicEncoder, BigEndianBasicDecoder, encode_sl, decode_sl, i32, 4, true, b32);
scalar_roundtrip!(c01_uv_le, LittleEndianBasicEncoder, LittleEndianBasicDecoder, encode_uv, decode_uv, u64, 8, false, b64);
scalar_roundtrip!(c01_uv_be, BigEndianBasicEncoder, BigEndianBasicDecoder, encode_uv, decode_uv, u64, 8, true, b64);
scalar_roundtrip!(c01_sv_le, LittleEndianBasicEncoder, LittleEndianBasicDecoder, encode_sv, decode_sv, i64, 8, false, b64);
scalar_roundtrip!(c01_sv_be, BigEndianBasicEncoder, BigEndianBasicDecoder, encode_sv, decode_sv, i64, 8, true, b64);
scalar_roundtrip!(c01_fl_le, LittleEndianBasicEncoder, LittleEndianBasicDecoder, encode_fl, decode_fl, f32, 4, false, b32);
scalar_roundtrip!(c01_fl_be, BigEndianBasicEncoder, BigEndianBasicDecoder, encode_fl, decode_fl, f32, 4, true, b32);
scalar_roundtrip!(c01_fd_le, LittleEndianBasicEncoder, LittleEndianBasicDecoder, encode_fd, decode_fd, f64, 8, false, b64);
scalar_roundtrip!(c01_fd_be, BigEndianBasicEncoder, BigEndianBasicDecoder, encode_fd, decode_fd, f64, 8, true, b64);

/// multi-value decoders: `decode_us_into` etc. fill every slot from consecutive values
#[kani::proof]
#[kani::unwind(10)]
pub fn c01_us_into_be_n3() {
    let src: [u8; 6] = kani::any();
    let mut dst = [0u16; 3];
    let mut s = &src[..];
    match BigEndianBasicDecoder.decode_us_into(&mut s, &mut dst) {
        Ok(()) => {
            assert!(s.len() == 0, "C01.into: n values of 2 bytes consume 2n bytes");
            assert!(dst[0] == ((src[0] as u16) << 8 | src[1] as u16) && dst[2] == ((src[4] as u16) << 8 | src[5] as u16),
                "C01.into: values are decoded in order with the codec's byte order");
        }
        Err(e) => { core::mem::forget(e); assert!(false, "C01.into: enough bytes"); }
    }
}

#[kani::proof]
#[kani::unwind(10)]
pub fn c01_ul_into_le_n2() {
    let src: [u8; 8] = kani::any();
    let mut dst = [0u32; 2];
    let mut s = &src[..];
    match LittleEndianBasicDecoder.decode_ul_into(&mut s, &mut dst) {
        Ok(()) => {
            assert!(s.len() == 0, "C01.into: n values of 4 bytes consume 4n bytes");
            assert!(dst[1] == (src[4] as u32 | (src[5] as u32) << 8 | (src[6] as u32) << 16 | (src[7] as u32) << 24),
                "C01.into: values are decoded in order with the codec's byte order");
        }
        Err(e) => { core::mem::forget(e); assert!(false, "C01.into: enough bytes"); }
    }
}

// ---- value level: `encode_primitive` of a multi-valued binary value followed by the matching
// multi-value decoder gives the same items in order (bounded: 2 items) ---------------------------------
use dicom_core::smallvec::smallvec;
use dicom_core::value::PrimitiveValue;
use dicom_encoding::encode::explicit_be::ExplicitVRBigEndianEncoder;
use dicom_encoding::encode::explicit_le::ExplicitVRLittleEndianEncoder;
use dicom_encoding::encode::Encode;

pub fn no_bt() -> std::backtrace::Backtrace {
    std::backtrace::Backtrace::disabled()
}

macro_rules! value_roundtrip {
    ($name:ident, $enc:ty, $dec:expr, $var:ident, $ty:ty, $into:ident, $bytes:expr, $cmp:ident) => {
        #[kani::proof]
        #[kani::unwind(10)]
        #[kani::stub(std::backtrace::Backtrace::force_capture, no_bt)]
        pub fn $name() {
            let a: $ty = kani::any();
            let b: $ty = kani::any();
            let v = PrimitiveValue::$var(smallvec![a, b]);
            let mut out = [0u8; 2 * $bytes];
            let r = {
                let mut w = &mut out[..];
                Encode::encode_primitive(&<$enc>::default(), &mut w, &v)
            };
            match r {
                Ok(n) => assert!(n == 2 * $bytes, "C01.value: two items occupy twice the item size"),
                Err(e) => { core::mem::forget(e); assert!(false, "C01.value: encoding into a large enough buffer succeeds"); }
            }
            let mut back: [$ty; 2] = [Default::default(); 2];
            let mut s = &out[..];
            match $dec.$into(&mut s, &mut back) {
                Ok(()) => {
                    assert!(back[0].$cmp() == a.$cmp() && back[1].$cmp() == b.$cmp(), "C01.value: written values read back equal, in order");
                    assert!(s.len() == 0, "C01.value: reading consumes exactly the bytes written");
                }
                Err(e) => { core::mem::forget(e); assert!(false, "C01.value: written values are readable"); }
            }
            core::mem::forget(v);
        }
    };
}
value_roundtrip!(c01_value_u16_le, ExplicitVRLittleEndianEncoder, LittleEndianBasicDecoder, U16, u16, decode_us_into, 2, b16);
value_roundtrip!(c01_value_u16_be, ExplicitVRBigEndianEncoder, BigEndianBasicDecoder, U16, u16, decode_us_into, 2, b16);
value_roundtrip!(c01_value_i32_be, ExplicitVRBigEndianEncoder, BigEndianBasicDecoder, I32, i32, decode_sl_into, 4, b32);
value_roundtrip!(c01_value_u64_le, ExplicitVRLittleEndianEncoder, LittleEndianBasicDecoder, U64, u64, decode_uv_into, 8, b64);
value_roundtrip!(c01_value_i64_be, ExplicitVRBigEndianEncoder, BigEndianBasicDecoder, I64, i64, decode_sv_into, 8, b64);
value_roundtrip!(c01_value_f32_be, ExplicitVRBigEndianEncoder, BigEndianBasicDecoder, F32, f32, decode_fl_into, 4, b32);
value_roundtrip!(c01_value_f64_le, ExplicitVRLittleEndianEncoder, LittleEndianBasicDecoder, F64, f64, decode_fd_into, 8, b64);
value_roundtrip!(c01_value_f64_be, ExplicitVRBigEndianEncoder, BigEndianBasicDecoder, F64, f64, decode_fd_into, 8, b64);
