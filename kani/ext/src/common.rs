//! Shared spec tables (written from PS3.5, not copied from the code) and helpers.
use dicom_core::VR;

/// Stub for `Backtrace::force_capture` (rule 1 of DESIGN.md section 2).
pub fn no_bt() -> std::backtrace::Backtrace {
    std::backtrace::Backtrace::disabled()
}

/// The 34 defined value representations, with their two-letter code and whether
/// PS3.5 7.1.2 gives them the 16-bit length form (Table 7.1-2).
pub const VRS: [(VR, [u8; 2], bool); 34] = [
    (VR::AE, *b"AE", true),
    (VR::AS, *b"AS", true),
    (VR::AT, *b"AT", true),
    (VR::CS, *b"CS", true),
    (VR::DA, *b"DA", true),
    (VR::DS, *b"DS", true),
    (VR::DT, *b"DT", true),
    (VR::FL, *b"FL", true),
    (VR::FD, *b"FD", true),
    (VR::IS, *b"IS", true),
    (VR::LO, *b"LO", true),
    (VR::LT, *b"LT", true),
    (VR::OB, *b"OB", false),
    (VR::OD, *b"OD", false),
    (VR::OF, *b"OF", false),
    (VR::OL, *b"OL", false),
    (VR::OV, *b"OV", false),
    (VR::OW, *b"OW", false),
    (VR::PN, *b"PN", true),
    (VR::SH, *b"SH", true),
    (VR::SL, *b"SL", true),
    (VR::SQ, *b"SQ", false),
    (VR::SS, *b"SS", true),
    (VR::ST, *b"ST", true),
    (VR::SV, *b"SV", false),
    (VR::TM, *b"TM", true),
    (VR::UC, *b"UC", false),
    (VR::UI, *b"UI", true),
    (VR::UL, *b"UL", true),
    (VR::UN, *b"UN", false),
    (VR::UR, *b"UR", false),
    (VR::US, *b"US", true),
    (VR::UT, *b"UT", false),
    (VR::UV, *b"UV", false),
];

/// Any of the 34 VRs, with its code and length class.
pub fn any_vr() -> (VR, [u8; 2], bool) {
    let i: usize = kani::any();
    kani::assume(i < 34);
    VRS[i]
}

#[derive(Clone, Copy, PartialEq, Eq)]
pub enum Ts {
    ImplicitLe,
    ExplicitLe,
    ExplicitBe,
}

fn put16(ts: Ts, v: u16) -> [u8; 2] {
    match ts {
        Ts::ExplicitBe => [(v >> 8) as u8, v as u8],
        _ => [v as u8, (v >> 8) as u8],
    }
}
fn put32(ts: Ts, v: u32) -> [u8; 4] {
    match ts {
        Ts::ExplicitBe => [(v >> 24) as u8, (v >> 16) as u8, (v >> 8) as u8, v as u8],
        _ => [v as u8, (v >> 8) as u8, (v >> 16) as u8, (v >> 24) as u8],
    }
}

/// PS3.5 7.1.2 / 7.1.3 header layout: returns (bytes, n) or None when the
/// length cannot be expressed in the 16-bit form.
pub fn spec_header(
    ts: Ts,
    group: u16,
    element: u16,
    code: [u8; 2],
    short: bool,
    len: u32,
) -> Option<([u8; 12], usize)> {
    let mut b = [0u8; 12];
    let g = put16(ts, group);
    let e = put16(ts, element);
    b[0] = g[0];
    b[1] = g[1];
    b[2] = e[0];
    b[3] = e[1];
    match ts {
        Ts::ImplicitLe => {
            let l = put32(ts, len);
            b[4] = l[0];
            b[5] = l[1];
            b[6] = l[2];
            b[7] = l[3];
            Some((b, 8))
        }
        _ => {
            b[4] = code[0];
            b[5] = code[1];
            if short {
                if len > 0xFFFF {
                    return None;
                }
                let l = put16(ts, len as u16);
                b[6] = l[0];
                b[7] = l[1];
                Some((b, 8))
            } else {
                let l = put32(ts, len);
                b[8] = l[0];
                b[9] = l[1];
                b[10] = l[2];
                b[11] = l[3];
                Some((b, 12))
            }
        }
    }
}

/// Item / delimiter layout: tag (FFFE,elem) + 32-bit length.
pub fn spec_item(ts: Ts, element: u16, len: u32) -> [u8; 8] {
    let g = put16(ts, 0xFFFE);
    let e = put16(ts, element);
    let l = put32(ts, len);
    [g[0], g[1], e[0], e[1], l[0], l[1], l[2], l[3]]
}
