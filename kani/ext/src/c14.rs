//! C14 / C05 — `Tag::from_str`: accepts exactly the three text forms `ggggeeee`, `gggg,eeee`,
//! `(gggg,eeee)` with upper- or lower-case hexadecimal digits, returns the tag they spell,
//! rejects every other string with an error, and never panics — for EVERY valid UTF-8 string
//! of 8, 9 and 11 bytes (all byte values symbolic), and for other lengths.
use dicom_core::Tag;
use std::str::FromStr;

fn hex(b: u8) -> Option<u16> {
    match b {
        b'0'..=b'9' => Some((b - b'0') as u16),
        b'a'..=b'f' => Some((b - b'a' + 10) as u16),
        b'A'..=b'F' => Some((b - b'A' + 10) as u16),
        _ => None,
    }
}

fn hex4(b: &[u8]) -> Option<u16> {
    match (hex(b[0]), hex(b[1]), hex(b[2]), hex(b[3])) {
        (Some(a), Some(b_), Some(c), Some(d)) => Some(a << 12 | b_ << 8 | c << 4 | d),
        _ => None,
    }
}

/// what the three accepted forms spell
fn spec(bytes: &[u8]) -> Option<(u16, u16)> {
    match bytes.len() {
        8 => match (hex4(&bytes[0..4]), hex4(&bytes[4..8])) {
            (Some(g), Some(e)) => Some((g, e)),
            _ => None,
        },
        9 => match (hex4(&bytes[0..4]), bytes[4] == b',', hex4(&bytes[5..9])) {
            (Some(g), true, Some(e)) => Some((g, e)),
            _ => None,
        },
        11 => match (bytes[0] == b'(', hex4(&bytes[1..5]), bytes[5] == b',', hex4(&bytes[6..10]), bytes[10] == b')') {
            (true, Some(g), true, Some(e), true) => Some((g, e)),
            _ => None,
        },
        _ => None,
    }
}

macro_rules! tag_from_str_contract {
    ($name:ident, $n:expr) => {
        #[kani::proof]
        #[kani::unwind(14)]
        pub fn $name() {
            let bytes: [u8; $n] = kani::any();
            if let Ok(s) = std::str::from_utf8(&bytes) {
                let expected = spec(&bytes);
                match Tag::from_str(s) {
                    Ok(t) => {
                        assert!(expected.is_some(), "C14.tag: only the three text forms are accepted");
                        assert!(expected == Some((t.0, t.1)), "C14.tag: the parsed tag is the one the text spells");
                        kani::cover!(true, "accepted form reachable");
                    }
                    Err(_) => {
                        assert!(expected.is_none(), "C14.tag: every string in one of the three forms (any letter case) is accepted");
                        kani::cover!(true, "rejection reachable");
                    }
                }
                kani::cover!(bytes[3] >= 0x80, "non-ASCII input reachable");
            }
        }
    };
}
tag_from_str_contract!(c14_tag_from_str_len8, 8);
tag_from_str_contract!(c14_tag_from_str_len9, 9);
tag_from_str_contract!(c14_tag_from_str_len11, 11);

/// other lengths are rejected (here 0, 7, 10 and 12 bytes; the code decides on `s.len()` alone)
macro_rules! tag_from_str_other_len {
    ($name:ident, $n:expr) => {
        #[kani::proof]
        #[kani::unwind(14)]
        pub fn $name() {
            let bytes: [u8; $n] = kani::any();
            if let Ok(s) = std::str::from_utf8(&bytes) {
                assert!(Tag::from_str(s).is_err(), "C14.tag: a string of another length is rejected");
            }
        }
    };
}
tag_from_str_other_len!(c14_tag_from_str_len0, 0);
tag_from_str_other_len!(c14_tag_from_str_len7, 7);
tag_from_str_other_len!(c14_tag_from_str_len10, 10);
tag_from_str_other_len!(c14_tag_from_str_len12, 12);
