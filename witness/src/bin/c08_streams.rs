//! Native stand-in for C08 on the compiled code with the REAL standard dictionary (not a deductive result; the
//! Kani units quantify over every 12-byte header and an abstract dictionary answer): header streams whose first
//! element is unambiguous are read by the adaptive decoder exactly as by the decoder of the true encoding —
//! every header (tag, VR, length) and every reported header size, for the first element and for the elements
//! that follow (all 34 VRs in both length forms, an item, delimiters).
//!  * explicit streams: first element = each of 22 attributes (exact VRs, the virtual VRs Xs / Ox / Px / Lt,
//!    a private and an unknown one) written with each real VR its dictionary entry allows;
//!  * implicit streams: the same attributes with value lengths 0-40 and the lengths whose low bytes spell a VR
//!    code that the attribute's entry does NOT allow (unambiguous by the statement) — lengths whose low bytes
//!    spell an allowed VR are ambiguous and excluded.
use dicom_core::dictionary::{DataDictionary, DataDictionaryEntry, VirtualVr};
use dicom_core::{Tag, VR};
use dicom_dictionary_std::StandardDataDictionary;
use dicom_encoding::decode::adaptive_le::AdaptiveVRLittleEndianDecoder;
use dicom_encoding::decode::explicit_le::ExplicitVRLittleEndianDecoder;
use dicom_encoding::decode::implicit_le::ImplicitVRLittleEndianDecoder;
use dicom_encoding::decode::Decode;
use std::io::Cursor;

const VRS: [VR; 34] = [
    VR::AE, VR::AS, VR::AT, VR::CS, VR::DA, VR::DS, VR::DT, VR::FL, VR::FD, VR::IS, VR::LO, VR::LT, VR::OB, VR::OD, VR::OF, VR::OL, VR::OV,
    VR::OW, VR::PN, VR::SH, VR::SL, VR::SQ, VR::SS, VR::ST, VR::SV, VR::TM, VR::UC, VR::UI, VR::UL, VR::UN, VR::UR, VR::US, VR::UT, VR::UV,
];
fn short_form(vr: VR) -> bool {
    use VR::*;
    matches!(vr, AE | AS | AT | CS | DA | DS | DT | FL | FD | IS | LO | LT | PN | SH | SL | SS | ST | TM | UI | UL | US)
}
fn explicit_header(tag: Tag, vr: VR, len: u32) -> Vec<u8> {
    let mut o = Vec::new();
    o.extend_from_slice(&tag.0.to_le_bytes()); o.extend_from_slice(&tag.1.to_le_bytes()); o.extend_from_slice(&vr.to_bytes());
    if short_form(vr) { o.extend_from_slice(&(len as u16).to_le_bytes()); } else { o.extend_from_slice(&[0, 0]); o.extend_from_slice(&len.to_le_bytes()); }
    o
}
fn implicit_header(tag: Tag, len: u32) -> Vec<u8> {
    let mut o = Vec::new();
    o.extend_from_slice(&tag.0.to_le_bytes()); o.extend_from_slice(&tag.1.to_le_bytes()); o.extend_from_slice(&len.to_le_bytes());
    o
}
/// the real VRs an entry allows (the meaning of the virtual VRs, PS3.5 / PS3.6)
fn allowed(tag: Tag) -> Vec<VR> {
    match StandardDataDictionary.by_tag(tag).map(|e| e.vr()) {
        Some(VirtualVr::Exact(v)) => vec![v],
        Some(VirtualVr::Xs) => vec![VR::US, VR::SS],
        Some(VirtualVr::Ox) | Some(VirtualVr::Px) => vec![VR::OB, VR::OW],
        Some(VirtualVr::Lt) => vec![VR::US, VR::OW],
        _ => VRS.to_vec(),
    }
}

struct Tally { cases: u64, bad: u64 }
impl Tally {
    fn fail(&mut self, what: String) { self.bad += 1; if self.bad <= 8 { println!("WITNESS unit=C08.streams {}", what); } }
}

fn main() {
    let mut t = Tally { cases: 0, bad: 0 };
    let firsts = [
        Tag(0x0008, 0x0005), Tag(0x0008, 0x0016), Tag(0x0008, 0x0020), Tag(0x0008, 0x1115), Tag(0x0010, 0x0010), Tag(0x0018, 0x0050), Tag(0x0020, 0x0013), Tag(0x0028, 0x0010),
        Tag(0x0028, 0x0106), Tag(0x0028, 0x0107), Tag(0x0028, 0x1201), Tag(0x0028, 0x3006), Tag(0x0028, 0x1200), Tag(0x5400, 0x1010), Tag(0x7FE0, 0x0010), Tag(0x0040, 0xA730),
        Tag(0x0042, 0x0011), Tag(0x0018, 0x9087), Tag(0x0072, 0x0082), Tag(0x0009, 0x0010), Tag(0x0009, 0x1001), Tag(0x0011, 0x2233),
    ];
    // what follows the first element: every VR in its form, an item, an item delimiter, a sequence delimiter
    let followers_explicit: Vec<Vec<u8>> = VRS.iter().enumerate().map(|(i, vr)| explicit_header(Tag(0x0029, 0x1000 + i as u16), *vr, (2 * i as u32) & 0xFFFE)).chain([
        vec![0xFE, 0xFF, 0x00, 0xE0, 0x0A, 0, 0, 0], vec![0xFE, 0xFF, 0x0D, 0xE0, 0, 0, 0, 0], vec![0xFE, 0xFF, 0xDD, 0xE0, 0, 0, 0, 0]]).collect();
    let followers_implicit: Vec<Vec<u8>> = [Tag(0x0008, 0x0018), Tag(0x0010, 0x0010), Tag(0x0028, 0x0010), Tag(0x0028, 0x0106), Tag(0x7FE0, 0x0010), Tag(0x0009, 0x1001), Tag(0x0040, 0xA730)]
        .iter().enumerate().map(|(i, tg)| implicit_header(*tg, [0u32, 2, 0x5353, 0x574F, 0xFFFF_FFFF, 0x0001_0000, 0x4255][i])).chain([
        vec![0xFE, 0xFF, 0x00, 0xE0, 0x0A, 0, 0, 0], vec![0xFE, 0xFF, 0x0D, 0xE0, 0, 0, 0, 0], vec![0xFE, 0xFF, 0xDD, 0xE0, 0, 0, 0, 0]]).collect();
    let compare = |t: &mut Tally, label: String, stream: &[u8], explicit: bool, count: usize| {
        t.cases += 1;
        let adaptive = AdaptiveVRLittleEndianDecoder::with_std_dict();
        let exp = ExplicitVRLittleEndianDecoder::default();
        let imp = ImplicitVRLittleEndianDecoder::with_std_dict();
        let (mut a, mut b) = (Cursor::new(stream), Cursor::new(stream));
        for k in 0..count {
            let ra = adaptive.decode_header(&mut a);
            let rb = if explicit { exp.decode_header(&mut b) } else { imp.decode_header(&mut b) };
            match (ra, rb) {
                (Ok((ha, na)), Ok((hb, nb))) => {
                    if ha.tag != hb.tag || ha.vr != hb.vr || ha.len.0 != hb.len.0 || na != nb || a.position() != b.position() {
                        return t.fail(format!("{}: header {} read as {} {} len {} ({} bytes), the {} decoder reads {} {} len {} ({} bytes)", label, k, ha.tag, ha.vr.to_string(), ha.len.0, na,
                            if explicit { "explicit" } else { "implicit" }, hb.tag, hb.vr.to_string(), hb.len.0, nb));
                    }
                }
                (Err(_), Err(_)) => return,
                (ra, rb) => return t.fail(format!("{}: header {}: adaptive ok={} but the {} decoder ok={}", label, k, ra.is_ok(), if explicit { "explicit" } else { "implicit" }, rb.is_ok())),
            }
        }
    };
    for first in firsts {
        let ok_vrs = allowed(first);
        // explicit streams
        for vr in &ok_vrs {
            for len in [0u32, 2, 10, 0x5352] {
                let mut stream = explicit_header(first, *vr, len);
                for f in &followers_explicit { stream.extend_from_slice(f); }
                compare(&mut t, format!("explicit stream, first element {} {} len {}", first, vr.to_string(), len), &stream, true, 1 + followers_explicit.len());
            }
        }
        // implicit streams: lengths whose low two bytes do not spell a VR the entry allows
        let mut lens: Vec<u32> = (0..=40u32).step_by(2).collect();
        for vr in VRS { let b = vr.to_bytes(); lens.push(u16::from_le_bytes(b) as u32); lens.push(u16::from_le_bytes(b) as u32 | 0x0001_0000); }
        lens.push(0xFFFF_FFFF);
        for len in lens {
            let low = (len as u16).to_le_bytes();
            let spelled = VR::from_binary(low);
            if let Some(v) = spelled { if ok_vrs.contains(&v) { continue; } } // ambiguous by the statement
            let mut stream = implicit_header(first, len);
            for f in &followers_implicit { stream.extend_from_slice(f); }
            compare(&mut t, format!("implicit stream, first element {} len {:#x}", first, len), &stream, false, 1 + followers_implicit.len());
        }
    }
    println!("EXHAUSTIVE unit=C08.streams cases={} mismatches={}", t.cases, t.bad);
}
