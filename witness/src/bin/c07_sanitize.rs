//! Witness for unit C07.sanitize: `Length + 1` (used by the NextEven strategy) on the real code.
use dicom_core::header::Length;
fn main() {
    let mut found = false;
    for l in [1u32, 3, 0x7FFF_FFFD, 0x7FFF_FFFF, 0x8000_0001, 0xFFFF_FFFD] {
        let r = std::panic::catch_unwind(|| (Length(l) + 1).0);
        match r {
            Ok(v) if v as u64 == l as u64 + 1 => {}
            Ok(v) => { found = true; println!("WITNESS unit=C07.sanitize Length({:#x}) + 1 = {:#x}", l, v); }
            Err(_) => { found = true; println!("WITNESS unit=C07.sanitize Length({:#x}) + 1 panics (arithmetic overflow in debug builds)", l); }
        }
    }
    if !found { println!("no witness: Length + 1 is exact for the sampled odd lengths"); }
}
