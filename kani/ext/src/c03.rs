//! C03 — element and item headers follow the PS3.5 wire layout.
//! Contract harnesses: `assume(pre); r = real_fn(args); assert(post)`.
use crate::common::*;
use dicom_core::header::{DataElementHeader, Header, HasLength, Length, SequenceItemHeader};
use dicom_core::{Tag, VR};
use dicom_encoding::decode::explicit_be::ExplicitVRBigEndianDecoder;
use dicom_encoding::decode::explicit_le::ExplicitVRLittleEndianDecoder;
use dicom_encoding::decode::Decode;
use dicom_encoding::encode::explicit_be::ExplicitVRBigEndianEncoder;
use dicom_encoding::encode::explicit_le::ExplicitVRLittleEndianEncoder;
use dicom_encoding::encode::implicit_le::ImplicitVRLittleEndianEncoder;
use dicom_encoding::encode::Encode;

// ---------------------------------------------------------------- encoders

/// Contract of `encode_element_header` (all three codecs):
///   Ok(n)  ==> n == hdr_len && out[..n] == hdr_bytes && nothing else written
///   Err    <==> explicit && short_form(vr) && len > 0xFFFF
macro_rules! enc_header_contract {
    ($name:ident, $enc:ty, $ts:expr) => {
        #[kani::proof]
        #[kani::unwind(14)]
        #[kani::stub(std::backtrace::Backtrace::force_capture, no_bt)]
        fn $name() {
            let (vr, code, short) = any_vr();
            let g: u16 = kani::any();
            let e: u16 = kani::any();
            let len: u32 = kani::any();
            let de = DataElementHeader::new(Tag(g, e), vr, Length(len));
            let mut out = [0xA5u8; 12];
            let rem;
            let r = {
                let mut w = &mut out[..];
                let r = <$enc>::default().encode_element_header(&mut w, de);
                rem = w.len();
                r
            };
            let spec = spec_header($ts, g, e, code, short, len);
            match r {
                Ok(n) => {
                    assert!(spec.is_some(), "C03.enc: over-long 16-bit length must be rejected, not truncated");
                    let (b, sn) = spec.unwrap();
                    assert!(n == sn, "C03.enc: reported header size equals layout size");
                    assert!(12 - rem == sn, "C03.enc: bytes written equals layout size");
                    let mut i = 0;
                    while i < 12 {
                        if i < sn {
                            assert!(out[i] == b[i], "C03.enc: header bytes follow PS3.5 7.1.2 layout");
                        } else {
                            assert!(out[i] == 0xA5, "C03.enc: nothing written past the header");
                        }
                        i += 1;
                    }
                    kani::cover!(sn == 8, "short form reachable");
                    kani::cover!(sn == 12, "long form reachable");
                }
                Err(err) => {
                    core::mem::forget(err);
                    assert!(spec.is_none(), "C03.enc: a header that fits its length field must be encodable");
                    kani::cover!(true, "rejection reachable");
                }
            }
        }
    };
}
enc_header_contract!(c03_enc_header_explicit_le, ExplicitVRLittleEndianEncoder, Ts::ExplicitLe);
enc_header_contract!(c03_enc_header_explicit_be, ExplicitVRBigEndianEncoder, Ts::ExplicitBe);
enc_header_contract!(c03_enc_header_implicit_le, ImplicitVRLittleEndianEncoder, Ts::ImplicitLe);

/// Contract of `encode_item_header`, `encode_item_delimiter`, `encode_sequence_delimiter`.
macro_rules! enc_item_contract {
    ($name:ident, $enc:ty, $ts:expr) => {
        #[kani::proof]
        #[kani::unwind(14)]
        #[kani::stub(std::backtrace::Backtrace::force_capture, no_bt)]
        fn $name() {
            let len: u32 = kani::any();
            let which: u8 = kani::any();
            kani::assume(which < 3);
            let mut out = [0xA5u8; 12];
            let rem;
            let r = {
                let mut w = &mut out[..];
                let enc = <$enc>::default();
                let r = match which {
                    0 => enc.encode_item_header(&mut w, len),
                    1 => enc.encode_item_delimiter(&mut w),
                    _ => enc.encode_sequence_delimiter(&mut w),
                };
                rem = w.len();
                r
            };
            let b = match which {
                0 => spec_item($ts, 0xE000, len),
                1 => spec_item($ts, 0xE00D, 0),
                _ => spec_item($ts, 0xE0DD, 0),
            };
            match r {
                Ok(()) => {
                    assert!(12 - rem == 8, "C03.item: item/delimiter header is 8 bytes");
                    let mut i = 0;
                    while i < 12 {
                        if i < 8 {
                            assert!(out[i] == b[i], "C03.item: tag FFFE,E000/E00D/E0DD + 32-bit length");
                        } else {
                            assert!(out[i] == 0xA5, "C03.item: nothing written past the header");
                        }
                        i += 1;
                    }
                    kani::cover!(which == 0, "item header reachable");
                    kani::cover!(which == 1, "item delimiter reachable");
                    kani::cover!(which == 2, "sequence delimiter reachable");
                }
                Err(err) => {
                    core::mem::forget(err);
                    assert!(false, "C03.item: writing 8 bytes into a 12-byte sink cannot fail");
                }
            }
        }
    };
}
enc_item_contract!(c03_enc_item_explicit_le, ExplicitVRLittleEndianEncoder, Ts::ExplicitLe);
enc_item_contract!(c03_enc_item_explicit_be, ExplicitVRBigEndianEncoder, Ts::ExplicitBe);
enc_item_contract!(c03_enc_item_implicit_le, ImplicitVRLittleEndianEncoder, Ts::ImplicitLe);
