//! Witness search for unit C07.stateful_decoder: call the real `StatefulDecoder::read_value`
//! / `read_value_preserved` / `read_value_bytes` for every VR, small lengths and a few fill
//! patterns and compare (a) the reported position and (b) the bytes actually consumed from
//! the source with the declared length.
use dicom_core::header::{DataElementHeader, Length};
use dicom_core::{Tag, VR};
use dicom_encoding::decode::basic::LittleEndianBasicDecoder;
use dicom_encoding::decode::explicit_le::ExplicitVRLittleEndianDecoder;
use dicom_encoding::text::SpecificCharacterSet;
use dicom_parser::stateful::decode::{StatefulDecode, StatefulDecoder};
use std::io::Cursor;

const VRS: [VR; 33] = [
    VR::AE, VR::AS, VR::AT, VR::CS, VR::DA, VR::DS, VR::DT, VR::FL, VR::FD, VR::IS, VR::LO, VR::LT, VR::OB, VR::OD,
    VR::OF, VR::OL, VR::OV, VR::OW, VR::PN, VR::SH, VR::SL, VR::SS, VR::ST, VR::SV, VR::TM, VR::UC, VR::UI, VR::UL,
    VR::UN, VR::UR, VR::US, VR::UT, VR::UV,
];

fn main() {
    std::panic::set_hook(Box::new(|_| {}));
    let fills: [(&str, u8); 4] = [("spaces", b' '), ("NULs", 0), ("digit 1", b'1'), ("digit 0", b'0')];
    let mut found = 0;
    let mut tried = 0u32;
    for mode in 0..3 {
        for vr in VRS {
            for len in 0u32..=17 {
                for (fname, fill) in fills {
                    tried += 1;
                    let mut data = vec![fill; len as usize];
                    data.extend_from_slice(&[0xEE; 24]); // bytes of the "next element"
                    let mut cur = Cursor::new(&data[..]);
                    let outcome = std::panic::catch_unwind(std::panic::AssertUnwindSafe(|| {
                        let mut dec = StatefulDecoder::new(
                            &mut cur,
                            ExplicitVRLittleEndianDecoder::default(),
                            LittleEndianBasicDecoder,
                            SpecificCharacterSet::default(),
                        );
                        let h = DataElementHeader::new(Tag(0x0009, 0x1001), vr, Length(len));
                        let r = match mode {
                            0 => dec.read_value(&h).is_ok(),
                            1 => dec.read_value_preserved(&h).is_ok(),
                            _ => dec.read_value_bytes(&h).is_ok(),
                        };
                        (r, dec.position())
                    }));
                    let (r, pos) = match outcome {
                        Ok(x) => x,
                        Err(_) => {
                            found += 1;
                            if found <= 12 {
                                println!(
                                    "WITNESS unit=C07.stateful_decoder fn={} vr={:?} declared_len={} fill={} PANICKED",
                                    ["read_value", "read_value_preserved", "read_value_bytes"][mode], vr, len, fname
                                );
                            }
                            continue;
                        }
                    };
                    let consumed = cur.position();
                    if r && (pos != len as u64 || consumed != len as u64) {
                        found += 1;
                        if found <= 12 {
                            println!(
                                "WITNESS unit=C07.stateful_decoder fn={} vr={:?} declared_len={} fill={} reported_position={} bytes_consumed={}",
                                ["read_value", "read_value_preserved", "read_value_bytes"][mode], vr, len, fname, pos, consumed
                            );
                        }
                    }
                }
            }
        }
    }
    // truncated sources: read_to_vec / skip_bytes of more bytes than the source holds
    for (have, want) in [(4usize, 10u32), (0, 2), (7, 8)] {
        for which in 0..2 {
            tried += 1;
            let data = vec![1u8; have];
            let mut cur = Cursor::new(&data[..]);
            let (ok, pos, got);
            {
                let mut dec = StatefulDecoder::new(
                    &mut cur,
                    ExplicitVRLittleEndianDecoder::default(),
                    LittleEndianBasicDecoder,
                    SpecificCharacterSet::default(),
                );
                let mut v = Vec::new();
                ok = if which == 0 { dec.read_to_vec(want, &mut v).is_ok() } else { dec.skip_bytes(want).is_ok() };
                pos = dec.position();
                got = v.len();
            }
            if ok && (pos != cur.position()) {
                found += 1;
                println!(
                    "WITNESS unit=C07.stateful_decoder fn={} source_bytes={} requested={} returned Ok with {} bytes, reported_position={} bytes_consumed={}",
                    ["read_to_vec", "skip_bytes"][which], have, want, got, pos, cur.position()
                );
            }
        }
    }
    if found == 0 {
        println!("no witness: {} (fn, VR, len<=17, fill) cases: position == consumed == declared length", tried);
    } else {
        println!("{} failing cases of {} (first 12 shown)", found, tried);
        println!("reproduce: cargo run --offline --manifest-path /verif/witness/Cargo.toml --bin c07_positions");
    }
    println!("EXHAUSTIVE unit=C07.value_readers_native cases={} mismatches={}", tried, found);
}
