//! Native stand-in for the preamble clause of C09 on the compiled code (not a deductive result): complete
//! files (two objects x two transfer syntaxes) written with `write_all` are read back (a) from a byte source
//! with the 128-byte preamble, (b) from a byte source WITHOUT it (starting at "DICM"), (c) by path, with and
//! without the preamble, with the preamble option Auto, and with Always / Never where they apply: every way
//! gives the same object (whose meta table is the one written and which writes back to the same bytes); a non-zero preamble content does
//! not matter; a source that delivers the file in pieces of 1 / 2 / 100 / 131 / 133 bytes gives the same object; a file whose media
//! storage UIDs are empty in the meta group reads to a table that records its own length and writes back to a file that reads
//! back equal; a file that is too short, or has no magic code, is an error and never a panic.
use dicom_core::{dicom_value, DataElement, PrimitiveValue, Tag, VR};
use dicom_object::file::ReadPreamble;
use dicom_object::{FileMetaTableBuilder, InMemDicomObject, OpenFileOptions};

struct Tally { cases: u64, bad: u64 }
impl Tally {
    fn check(&mut self, ok: bool, what: impl FnOnce() -> String) {
        self.cases += 1;
        if !ok { self.bad += 1; if self.bad <= 8 { println!("WITNESS unit=C09.preamble {}", what()); } }
    }
}

fn object(n: u16) -> InMemDicomObject {
    InMemDicomObject::from_element_iter([
        DataElement::new(Tag(0x0008, 0x0016), VR::UI, PrimitiveValue::from("1.2.840.10008.5.1.4.1.1.7")),
        DataElement::new(Tag(0x0008, 0x0018), VR::UI, PrimitiveValue::from(format!("2.25.{}", 1000 + n as u32))),
        DataElement::new(Tag(0x0010, 0x0010), VR::PN, PrimitiveValue::from("Doe^John")),
        DataElement::new(Tag(0x0028, 0x0010), VR::US, dicom_value!(U16, [n])),
        DataElement::new(Tag(0x7FE0, 0x0010), VR::OW, dicom_value!(U16, [1, 2, 3, 4])),
    ])
}

fn main() {
    let mut t = Tally { cases: 0, bad: 0 };
    let dir = std::path::PathBuf::from("/verif/build/tmp_c09");
    let _ = std::fs::create_dir_all(&dir);
    for (k, ts) in ["1.2.840.10008.1.2.1", "1.2.840.10008.1.2"].iter().enumerate() {
        for n in [1u16, 2] {
            let file = object(n).with_meta(FileMetaTableBuilder::new().transfer_syntax(*ts)).expect("meta");
            let mut bytes = Vec::new();
            file.write_all(&mut bytes).expect("write");
            let label = format!("object {} in {}", n, ts);
            t.check(bytes.len() > 132 && &bytes[128..132] == b"DICM" && bytes[..128].iter().all(|b| *b == 0), || format!("{}: written file does not start with a zero preamble and DICM", label));
            let mut noisy = bytes.clone();
            for (i, b) in noisy[..128].iter_mut().enumerate() { *b = (i as u8).wrapping_mul(7).wrapping_add(1); }
            let without = bytes[128..].to_vec();
            // reference: the file read from a byte source with its preamble; it must carry the written meta table and write back to
            // the same bytes; every other way of reading must give exactly this object
            let reference = match dicom_object::from_reader(&bytes[..]) { Ok(o) => o, Err(e) => { t.check(false, || format!("{}: the written file does not read back: {}", label, e)); continue; } };
            t.check(*reference.meta() == *file.meta(), || format!("{}: meta table read back differs: {:?} vs {:?}", label, reference.meta(), file.meta()));
            let mut again = Vec::new();
            t.check(reference.write_all(&mut again).is_ok() && again == bytes, || format!("{}: the object read back writes to {} bytes that differ from the {} bytes read", label, again.len(), bytes.len()));
            let same = |o: &dicom_object::DefaultDicomObject| *o.meta() == *reference.meta() && **o == *reference;
            for (what, data, opt, expect_ok) in [
                ("with the preamble, Auto", &bytes, ReadPreamble::Auto, true), ("with a non-zero preamble, Auto", &noisy, ReadPreamble::Auto, true),
                ("without the preamble, Auto", &without, ReadPreamble::Auto, true), ("with the preamble, Always", &bytes, ReadPreamble::Always, true),
                ("without the preamble, Never", &without, ReadPreamble::Never, true),
            ] {
                let r = std::panic::catch_unwind(|| OpenFileOptions::new().read_preamble(opt).from_reader(&data[..]));
                match r {
                    Ok(Ok(o)) => t.check(same(&o) == expect_ok, || format!("{}: read from a byte source {} gives a different object", label, what)),
                    Ok(Err(e)) => t.check(!expect_ok, || format!("{}: reading from a byte source {} failed: {}", label, what, e)),
                    Err(_) => t.check(false, || format!("{}: reading from a byte source {} panicked", label, what)),
                }
                let path = dir.join(format!("f{}_{}_{}.dcm", k, n, what.len()));
                std::fs::write(&path, data).expect("temp file");
                let r = std::panic::catch_unwind(|| OpenFileOptions::new().read_preamble(opt).open_file(&path));
                match r {
                    Ok(Ok(o)) => t.check(same(&o) == expect_ok, || format!("{}: read by path {} gives a different object", label, what)),
                    Ok(Err(e)) => t.check(!expect_ok, || format!("{}: reading by path {} failed: {}", label, what, e)),
                    Err(_) => t.check(false, || format!("{}: reading by path {} panicked", label, what)),
                }
                let _ = std::fs::remove_file(&path);
            }
            // the plain entry points
            t.check(matches!(dicom_object::from_reader(&bytes[..]), Ok(o) if same(&o)), || format!("{}: from_reader with the preamble", label));
            t.check(matches!(dicom_object::from_reader(&without[..]), Ok(o) if same(&o)), || format!("{}: from_reader without the preamble", label));
            // a byte source that delivers its bytes in pieces (1, 2, 100, 131, 133 bytes per read), with and without the preamble
            struct Chunked<'a> { data: &'a [u8], pos: usize, step: usize }
            impl std::io::Read for Chunked<'_> {
                fn read(&mut self, buf: &mut [u8]) -> std::io::Result<usize> {
                    let n = self.step.min(buf.len()).min(self.data.len() - self.pos);
                    buf[..n].copy_from_slice(&self.data[self.pos..self.pos + n]);
                    self.pos += n;
                    Ok(n)
                }
            }
            for step in [1usize, 2, 100, 131, 133] {
                for (what, data) in [("with the preamble", &bytes), ("without the preamble", &without)] {
                    let r = std::panic::catch_unwind(|| dicom_object::from_reader(Chunked { data: &data[..], pos: 0, step }));
                    match r {
                        Ok(Ok(o)) => t.check(same(&o), || format!("{}: read {} from a source delivering {} bytes per read gives a different object", label, what, step)),
                        Ok(Err(e)) => t.check(false, || format!("{}: reading {} from a source delivering {} bytes per read failed: {}", label, what, step, e)),
                        Err(_) => t.check(false, || format!("{}: reading {} from a source delivering {} bytes per read panicked", label, what, step)),
                    }
                }
            }
            // a file whose meta group has EMPTY media storage UIDs (what `FileMetaTableBuilder::..build()` gives without them): the reader
            // fills them in from the data set; the table it returns must still record the length of its own encoding, and writing
            // the object again must give a file that reads back to the same object
            if let Ok(meta) = FileMetaTableBuilder::new().transfer_syntax(*ts).build() {
                let mut o = object(n);
                o.put(DataElement::new(Tag(0x0008, 0x0016), VR::UI, PrimitiveValue::from("1.2.840.10008.5.1.4.1.1.7")));
                let f = o.with_exact_meta(meta);
                let mut b1 = Vec::new();
                if f.write_all(&mut b1).is_ok() {
                    match dicom_object::from_reader(&b1[..]) {
                        Ok(read) => {
                            let mut g = Vec::new();
                            let _ = read.meta().write(&mut g);
                            t.check(g.len() >= 12 && read.meta().information_group_length as usize == g.len() - 12,
                                || format!("{}: file with empty media storage UIDs: the table read records group length {}, its encoding has {} bytes after the group length element", label, read.meta().information_group_length, g.len().saturating_sub(12)));
                            let mut b2 = Vec::new();
                            let ok = read.write_all(&mut b2).is_ok();
                            let again = dicom_object::from_reader(&b2[..]);
                            t.check(ok && matches!(&again, Ok(a) if *a.meta() == *read.meta() && **a == *read),
                                || format!("{}: file with empty media storage UIDs: written again, it reads back as {:?} instead of {:?}", label, again.as_ref().map(|a| a.meta().clone()).map_err(|e| e.to_string()), read.meta()));
                        }
                        Err(e) => t.check(false, || format!("{}: file with empty media storage UIDs does not read: {}", label, e)),
                    }
                }
            }
            // malformed starts: an error, never a panic
            for cut in [0usize, 1, 4, 127, 128, 131, 132, 140] {
                let r = std::panic::catch_unwind(|| dicom_object::from_reader(&bytes[..cut.min(bytes.len())]).is_ok());
                t.check(matches!(r, Ok(false)), || format!("{}: the first {} bytes of the file read as {:?}", label, cut, r.map_err(|_| "panic")));
            }
            let mut nomagic = bytes.clone();
            nomagic[128..132].copy_from_slice(b"DICX");
            let r = std::panic::catch_unwind(|| dicom_object::from_reader(&nomagic[..]).is_ok());
            t.check(matches!(r, Ok(false)), || format!("{}: a file without the magic code reads as {:?}", label, r.map_err(|_| "panic")));
        }
    }
    let _ = std::fs::remove_dir_all(&dir);
    println!("EXHAUSTIVE unit=C09.preamble cases={} mismatches={}", t.cases, t.bad);
}
