//! Bounded native stand-in for C17: every person name built from up to five components drawn from a
//! small alphabet (no '^', '=' allowed, no leading/trailing spaces, non-empty) is written with the real
//! `to_dicom_string` and parsed back with the real `from_text`; trailing empty components are omitted,
//! leading ones kept as separators.
use dicom_core::value::person_name::{PersonName, PersonNameBuilder};

fn main() {
    let alphabet: [Option<&str>; 7] = [None, Some("A"), Some("b c"), Some("="), Some("é"), Some("x.y-z"), Some("0")];
    let (mut cases, mut bad) = (0u64, 0u64);
    for f in alphabet { for g in alphabet { for m in alphabet { for p in alphabet { for s in alphabet {
        cases += 1;
        let mut b = PersonNameBuilder::new();
        if let Some(x) = f { b.with_family(x); }
        if let Some(x) = g { b.with_given(x); }
        if let Some(x) = m { b.with_middle(x); }
        if let Some(x) = p { b.with_prefix(x); }
        if let Some(x) = s { b.with_suffix(x); }
        let name: PersonName = b.build();
        let text = name.to_dicom_string();
        // expected text: components in DICOM order joined by '^', trailing empty ones omitted
        let comps = [f, g, m, p, s];
        let last = comps.iter().rposition(|c| c.is_some());
        let expected: String = match last { None => String::new(), Some(l) => comps[..=l].iter().map(|c| c.unwrap_or("")).collect::<Vec<_>>().join("^") };
        let back = PersonName::from_text(&text);
        let same = back.family() == f && back.given() == g && back.middle() == m && back.prefix() == p && back.suffix() == s;
        if text != expected || !same || back != name {
            bad += 1;
            if bad <= 6 { println!("WITNESS unit=C17.person_name components={:?} text={:?} expected_text={:?} parsed_back={:?}", comps, text, expected, back); }
        }
    }}}}}
    println!("EXHAUSTIVE unit=C17.person_name cases={} mismatches={}", cases, bad);
}
