//! C16 — capability queries of a transfer syntax descriptor agree with the codecs it offers;
//! a data set decoder and encoder exist exactly for the three defined (byte order, VR mode) pairs.
use dicom_encoding::transfer_syntax::{Codec, Endianness, TransferSyntax};

#[derive(Clone, Copy, PartialEq, Eq)]
enum Shape { NoCodec, DatasetStub, Dataset, Enc(bool, bool) }

#[kani::proof]
#[kani::unwind(4)]
pub fn c16_capability_queries() {
    let k: u8 = kani::any();
    kani::assume(k < 7);
    let shape = match k {
        0 => Shape::NoCodec,
        1 => Shape::DatasetStub,
        2 => Shape::Dataset,
        3 => Shape::Enc(false, false),
        4 => Shape::Enc(true, false),
        5 => Shape::Enc(false, true),
        _ => Shape::Enc(true, true),
    };
    let codec: Codec<(), (), ()> = match shape {
        Shape::NoCodec => Codec::None,
        Shape::DatasetStub => Codec::Dataset(None),
        Shape::Dataset => Codec::Dataset(Some(())),
        Shape::Enc(r, w) => Codec::EncapsulatedPixelData(if r { Some(()) } else { None }, if w { Some(()) } else { None }),
    };
    let big: bool = kani::any();
    let explicit: bool = kani::any();
    let ts: TransferSyntax<(), (), ()> =
        TransferSyntax::new("1.2.3", "X", if big { Endianness::Big } else { Endianness::Little }, explicit, codec);

    // the predicates of the statement, over what the descriptor actually offers
    let dataset_rw = !matches!(shape, Shape::DatasetStub);                       // data sets can be read and written
    let pixel_r = match shape { Shape::NoCodec | Shape::Dataset => true, Shape::Enc(r, _) => r, Shape::DatasetStub => false };
    let pixel_w = match shape { Shape::NoCodec | Shape::Dataset => true, Shape::Enc(_, w) => w, Shape::DatasetStub => false };
    let encapsulated = matches!(shape, Shape::Enc(..));

    assert!(ts.is_codec_free() == matches!(shape, Shape::NoCodec), "C16.query: codec-free <=> no codec is required");
    assert!(ts.is_unsupported() == !dataset_rw, "C16.query: unsupported <=> data sets can be neither read nor written");
    assert!(ts.is_encapsulated_pixel_data() == encapsulated, "C16.query: encapsulated <=> pixel data codec shape");
    assert!(ts.can_decode_dataset() == dataset_rw, "C16.query: can_decode_dataset <=> a data set codec is offered");
    assert!(ts.can_decode_all() == (dataset_rw && pixel_r), "C16.query: can_decode_all <=> data set and pixel data can be decoded");
    assert!(ts.is_fully_supported() == (dataset_rw && pixel_r && pixel_w), "C16.query: fully supported <=> decode and encode of everything");
    assert!(ts.is_unsupported_pixel_encapsulation() == (!pixel_r && !pixel_w), "C16.query: pixel encapsulation unsupported <=> neither reader nor writer");
    assert!(ts.pixel_data_reader().is_some() == (encapsulated && pixel_r), "C16.query: pixel_data_reader present <=> offered");
    assert!(ts.pixel_data_writer().is_some() == (encapsulated && pixel_w), "C16.query: pixel_data_writer present <=> offered");
    assert!((ts.endianness() == Endianness::Big) == big, "C16.query: endianness as described");
    kani::cover!(k == 6, "full codec reachable");
    kani::cover!(k == 1, "stub reachable");
    core::mem::forget(ts);
}

// decoder_for / encoder_for cannot be compiled by Kani 0.68 (internal compiler error in intrinsics.rs:243 once the
// boxed dyn decoders become reachable); their presence is decided by the exhaustive native unit C16.registry.
