//! C08 — in-module contract harnesses for encoding/src/decode/adaptive_le.rs
//! (compiled into the real module through the `#[cfg(kani)] #[path] mod` hook, so the
//! private `VrState`, `state` and `vr_compatible_with_virtual` are reachable).
use super::*;
use crate::decode::explicit_le::ExplicitVRLittleEndianDecoder;
use crate::decode::implicit_le::ImplicitVRLittleEndianDecoder;
use dicom_core as dc;
#[path = "/verif/kani/shared/spec.rs"]
mod spec;
use spec::*;

/// "compatible with that attribute's dictionary entry", from the meaning of the
/// virtual VRs (PS3.6: xs = US or SS, ox / px = OB or OW, lt = US or OW).
fn spec_compatible(vr: VR, e: VirtualVr) -> bool {
    match e {
        VirtualVr::Exact(v) => vr == v,
        VirtualVr::Xs => vr == VR::US || vr == VR::SS,
        VirtualVr::Ox | VirtualVr::Px => vr == VR::OB || vr == VR::OW,
        VirtualVr::Lt => vr == VR::US || vr == VR::OW,
        _ => false,
    }
}

/// the two bytes after the tag spell a VR the dictionary does not contradict
fn spells(code: [u8; 2], e: Option<VirtualVr>) -> bool {
    match spec_vr_of_code(code) {
        None => false,
        Some((vr, _)) => match e {
            None => true,
            Some(v) => spec_compatible(vr, v),
        },
    }
}

fn same(a: &(DataElementHeader, usize), b: &(DataElementHeader, usize)) -> bool {
    a.0.tag == b.0.tag && a.0.vr == b.0.vr && a.0.len.0 == b.0.len.0 && a.1 == b.1
}

fn dec_with(dict: SymDict, st: VrState) -> AdaptiveVRLittleEndianDecoder<SymDict> {
    AdaptiveVRLittleEndianDecoder { dict, basic: LittleEndianBasicDecoder, state: Cell::new(st) }
}

/// First header (state Unknown), any 12 bytes, any dictionary answer.
#[kani::proof]
#[kani::unwind(4)]
#[kani::stub(std::backtrace::Backtrace::force_capture, no_bt)]
pub fn c08_first_header() {
    let src: [u8; 12] = kani::any();
    let g = get16(Ts::ExplicitLe, &src[0..2]);
    let e = get16(Ts::ExplicitLe, &src[2..4]);
    let (dict, answer) = SymDict::any_for(Tag(g, e));
    let dict2 = SymDict { entry: dict.entry.clone() };
    let dec = dec_with(dict, VrState::Unknown);
    let mut s = &src[..];
    let r = match Decode::decode_header(&dec, &mut s) {
        Ok(r) => r,
        Err(err) => {
            core::mem::forget(err);
            assert!(false, "C08: 12 bytes always hold a complete header");
            return;
        }
    };
    let used = 12 - s.len();
    assert!(used == r.1, "C08: bytes_read equals the bytes consumed");
    if g == 0xFFFE {
        // delimiters carry no VR in either syntax: both decoders agree, nothing is decided yet
        let mut s2 = &src[..];
        match Decode::decode_header(&ExplicitVRLittleEndianDecoder::default(), &mut s2) {
            Ok(x) => assert!(same(&r, &x), "C08: delimiter header read as the explicit decoder reads it"),
            Err(err) => core::mem::forget(err),
        }
        assert!(dec.state.get() == VrState::Unknown, "C08: a delimiter does not decide the syntax");
        kani::cover!(true, "delimiter first reachable");
    } else if spells([src[4], src[5]], answer) {
        // explicit-encoded first element: read exactly as the explicit decoder reads it
        let mut s2 = &src[..];
        match Decode::decode_header(&ExplicitVRLittleEndianDecoder::default(), &mut s2) {
            Ok(x) => assert!(same(&r, &x), "C08: explicit data is read exactly as the explicit decoder reads it"),
            Err(err) => {
                core::mem::forget(err);
                assert!(false, "C08: explicit decoder accepts 12 bytes");
            }
        }
        assert!(dec.state.get() == VrState::Explicit, "C08: syntax locked to explicit");
        kani::cover!(r.1 == 8, "explicit short form reachable");
        kani::cover!(r.1 == 12, "explicit long form reachable");
        kani::cover!(answer.is_some(), "explicit with dictionary entry reachable");
    } else {
        // unambiguous implicit-encoded first element: read exactly as the implicit decoder reads it
        let mut s2 = &src[..];
        match Decode::decode_header(&ImplicitVRLittleEndianDecoder::with_dict(dict2), &mut s2) {
            Ok(x) => assert!(same(&r, &x), "C08: implicit data is read exactly as the implicit decoder reads it"),
            Err(err) => {
                core::mem::forget(err);
                assert!(false, "C08: implicit decoder accepts 8 bytes");
            }
        }
        assert!(dec.state.get() == VrState::Implicit, "C08: syntax locked to implicit");
        kani::cover!(spec_vr_of_code([src[4], src[5]]).is_some(), "implicit by dictionary contradiction reachable");
        kani::cover!(spec_vr_of_code([src[4], src[5]]).is_none(), "implicit by undefined code reachable");
    }
}

/// Every later header: once locked, the decoder is the corresponding decoder and stays locked.
#[kani::proof]
#[kani::unwind(4)]
#[kani::stub(std::backtrace::Backtrace::force_capture, no_bt)]
pub fn c08_locked_explicit() {
    let src: [u8; 12] = kani::any();
    let g = get16(Ts::ExplicitLe, &src[0..2]);
    let e = get16(Ts::ExplicitLe, &src[2..4]);
    let (dict, _answer) = SymDict::any_for(Tag(g, e));
    let dec = dec_with(dict, VrState::Explicit);
    let mut s = &src[..];
    let mut s2 = &src[..];
    let a = Decode::decode_header(&dec, &mut s);
    let b = Decode::decode_header(&ExplicitVRLittleEndianDecoder::default(), &mut s2);
    match (a, b) {
        (Ok(x), Ok(y)) => {
            assert!(same(&x, &y) && s.len() == s2.len(), "C08: locked explicit == explicit decoder");
            kani::cover!(true, "locked explicit reachable");
        }
        (a, b) => {
            core::mem::forget(a);
            core::mem::forget(b);
            assert!(false, "C08: 12 bytes always decode");
        }
    }
    assert!(dec.state.get() == VrState::Explicit, "C08: a locked decoder never changes its mind");
}

#[kani::proof]
#[kani::unwind(4)]
#[kani::stub(std::backtrace::Backtrace::force_capture, no_bt)]
pub fn c08_locked_implicit() {
    let src: [u8; 12] = kani::any();
    let g = get16(Ts::ExplicitLe, &src[0..2]);
    let e = get16(Ts::ExplicitLe, &src[2..4]);
    let (dict, answer) = SymDict::any_for(Tag(g, e));
    // domain restriction (reported as an assumption): in group FFFE only the item and
    // delimiter tags occur in a data set, and the dictionary has no entry for them
    kani::assume(g != 0xFFFE || ((e == 0xE000 || e == 0xE00D || e == 0xE0DD) && answer.is_none()));
    let dict2 = SymDict { entry: dict.entry.clone() };
    let dec = dec_with(dict, VrState::Implicit);
    let mut s = &src[..];
    let mut s2 = &src[..];
    let a = Decode::decode_header(&dec, &mut s);
    let b = Decode::decode_header(&ImplicitVRLittleEndianDecoder::with_dict(dict2), &mut s2);
    match (a, b) {
        (Ok(x), Ok(y)) => {
            assert!(same(&x, &y) && s.len() == s2.len(), "C08: locked implicit == implicit decoder");
            kani::cover!(true, "locked implicit reachable");
            kani::cover!(g == 0xFFFE, "locked implicit delimiter reachable");
        }
        (a, b) => {
            core::mem::forget(a);
            core::mem::forget(b);
            assert!(false, "C08: 12 bytes always decode");
        }
    }
    assert!(dec.state.get() == VrState::Implicit, "C08: a locked decoder never changes its mind");
}

/// Truth table of the compatibility test against the meaning of the virtual VRs.
#[kani::proof]
#[kani::unwind(4)]
pub fn c08_vr_compatible() {
    let (vr, _, _) = any_vr();
    let v = any_virtual_vr();
    assert!(vr_compatible_with_virtual(vr, v) == spec_compatible(vr, v), "C08: VR compatibility follows the virtual VR's meaning");
    kani::cover!(spec_compatible(vr, v), "compatible reachable");
    kani::cover!(!spec_compatible(vr, v), "incompatible reachable");
}

/// Concrete-playback tests generated by `./check C08 --replay` (DESIGN.md 5.2).
#[cfg(test)]
mod playback_gen {
    include!("/verif/build/playback/in_encoding__adaptive_le.rs");
}
