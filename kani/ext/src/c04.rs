//! C04 — byte counts reported by the value encoders equal the bytes written, and
//! `PrimitiveValue::calculate_byte_len` agrees with them (up to the even padding).
//! BOUNDED: collection lengths are concrete, contents symbolic.
use crate::common::no_bt;
use dicom_core::smallvec::smallvec;
use dicom_core::value::{PrimitiveValue, C};
use dicom_core::Tag;
use dicom_encoding::encode::explicit_be::ExplicitVRBigEndianEncoder;
use dicom_encoding::encode::explicit_le::ExplicitVRLittleEndianEncoder;
use dicom_encoding::encode::implicit_le::ImplicitVRLittleEndianEncoder;
use dicom_encoding::encode::Encode;

fn even(n: usize) -> usize {
    n + n % 2
}

/// contract of `encode_primitive` + `calculate_byte_len` for one value
fn check_value<E: Encode>(enc: &E, v: &PrimitiveValue, expected_len: usize) {
    let mut out = [0xA5u8; 40];
    let rem;
    let r = {
        let mut w = &mut out[..];
        let r = enc.encode_primitive(&mut w, v);
        rem = w.len();
        r
    };
    match r {
        Ok(n) => {
            assert!(n == 40 - rem, "C04.count: the byte count returned equals the bytes actually written");
            assert!(n == expected_len, "C04.count: a value of k items of s bytes occupies k*s bytes");
            assert!(even(v.calculate_byte_len()) == even(n), "C04.byte_len: calculate_byte_len is the written length (rounded up to even)");
            kani::cover!(true, "reachable");
        }
        Err(e) => {
            core::mem::forget(e);
            assert!(false, "C04.count: encoding into a large enough buffer cannot fail");
        }
    }
}

macro_rules! prim_count {
    ($name:ident, $enc:ty, $var:ident, $ty:ty, [$($x:ident),*], $size:expr) => {
        #[kani::proof]
        #[kani::unwind(8)]
        #[kani::stub(std::backtrace::Backtrace::force_capture, no_bt)]
        pub fn $name() {
            $(let $x: $ty = kani::any();)*
            let items: &[$ty] = &[$($x),*];
            let v = PrimitiveValue::$var(C::from_slice(items));
            check_value(&<$enc>::default(), &v, items.len() * $size);
            core::mem::forget(v);
        }
    };
}
prim_count!(c04_prim_u8_n0_le, ExplicitVRLittleEndianEncoder, U8, u8, [], 1);
prim_count!(c04_prim_u8_n3_le, ExplicitVRLittleEndianEncoder, U8, u8, [a, b, c], 1);
prim_count!(c04_prim_u16_n2_le, ExplicitVRLittleEndianEncoder, U16, u16, [a, b], 2);
prim_count!(c04_prim_u16_n1_be, ExplicitVRBigEndianEncoder, U16, u16, [a], 2);
prim_count!(c04_prim_i16_n1_il, ImplicitVRLittleEndianEncoder, I16, i16, [a], 2);
prim_count!(c04_prim_u32_n2_be, ExplicitVRBigEndianEncoder, U32, u32, [a, b], 4);
prim_count!(c04_prim_i32_n1_le, ExplicitVRLittleEndianEncoder, I32, i32, [a], 4);
prim_count!(c04_prim_u64_n1_le, ExplicitVRLittleEndianEncoder, U64, u64, [a], 8);
prim_count!(c04_prim_i64_n1_be, ExplicitVRBigEndianEncoder, I64, i64, [a], 8);
prim_count!(c04_prim_f32_n1_le, ExplicitVRLittleEndianEncoder, F32, f32, [a], 4);
prim_count!(c04_prim_f64_n1_be, ExplicitVRBigEndianEncoder, F64, f64, [a], 8);

#[kani::proof]
#[kani::unwind(8)]
#[kani::stub(std::backtrace::Backtrace::force_capture, no_bt)]
pub fn c04_prim_tags_n2_le() {
    let (g1, e1, g2, e2): (u16, u16, u16, u16) = (kani::any(), kani::any(), kani::any(), kani::any());
    let v = PrimitiveValue::Tags(smallvec![Tag(g1, e1), Tag(g2, e2)]);
    check_value(&ExplicitVRLittleEndianEncoder::default(), &v, 8);
    core::mem::forget(v);
}

#[kani::proof]
#[kani::unwind(8)]
#[kani::stub(std::backtrace::Backtrace::force_capture, no_bt)]
pub fn c04_prim_empty() {
    check_value(&ExplicitVRLittleEndianEncoder::default(), &PrimitiveValue::Empty, 0);
}

/// `encode_offset_table`: four bytes per entry, count returned == bytes written
macro_rules! offset_table_count {
    ($name:ident, $enc:ty, [$($x:ident),*]) => {
        #[kani::proof]
        #[kani::unwind(8)]
        #[kani::stub(std::backtrace::Backtrace::force_capture, no_bt)]
        pub fn $name() {
            $(let $x: u32 = kani::any();)*
            let table: &[u32] = &[$($x),*];
            let mut out = [0xA5u8; 16];
            let rem;
            let r = {
                let mut w = &mut out[..];
                let r = <$enc>::default().encode_offset_table(&mut w, table);
                rem = w.len();
                r
            };
            match r {
                Ok(n) => {
                    assert!(n == 16 - rem && n == 4 * table.len(), "C04.count: offset table = 4 bytes per entry, count returned == bytes written");
                    kani::cover!(true, "reachable");
                }
                Err(e) => {
                    core::mem::forget(e);
                    assert!(false, "C04.count: encoding into a large enough buffer cannot fail");
                }
            }
        }
    };
}
offset_table_count!(c04_bot_n0_le, ExplicitVRLittleEndianEncoder, []);
offset_table_count!(c04_bot_n2_le, ExplicitVRLittleEndianEncoder, [a, b]);
offset_table_count!(c04_bot_n3_be, ExplicitVRBigEndianEncoder, [a, b, c]);
offset_table_count!(c04_bot_n2_il, ImplicitVRLittleEndianEncoder, [a, b]);

// Delimited multi-valued variants (dates, times, strings): Kani harnesses over them exceeded 600 s
// in the format machinery; their byte count is decided by the Verus unit C04.collection_delimited.
