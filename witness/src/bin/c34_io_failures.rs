//! Native stand-in for C34 on the compiled code (not a deductive result): a small object (text, numbers,
//! odd-length bytes, a nested sequence with an item, encapsulated pixel data with two fragments) is
//!  (1) written as a data set in Implicit VR LE, Explicit VR LE and Explicit VR BE, and as a complete file,
//!      to a sink that FAILS (I/O error), or ACCEPTS ZERO BYTES, once byte offset k is reached (from then on, or once only) — for every
//!      k from 0 to the length of the complete output: the operation must return an error, never Ok and
//!      never a panic; with a sink that accepts ONE BYTE PER CALL the output must be complete and identical;
//!  (2) read back (data set in the three transfer syntaxes, and the complete file) from a source that
//!      reports an I/O error once offset k is reached — for every k below the length: an error, never Ok
//!      with a partial object and never a panic;
//!  (3) a stream of three PDUs received through `read_pdu_from_wire` from a transport that fails at offset k, for every k and
//!      three segment sizes: the PDUs that lie completely before the failure are received, then an error.
use dicom_core::value::{DataSetSequence, PixelFragmentSequence, Value};
use dicom_core::{dicom_value, DataElement, Length, PrimitiveValue, Tag, VR};
use dicom_object::{FileMetaTableBuilder, InMemDicomObject};
use dicom_transfer_syntax_registry::entries;
use std::io::{Read, Write};

#[derive(Clone, Copy, PartialEq, Debug)]
enum Mode { Error, Zero, ErrorOnce, ZeroOnce, OneByte }

struct Sink { out: Vec<u8>, fail_at: usize, mode: Mode, failed: bool }
impl Write for Sink {
    fn write(&mut self, buf: &[u8]) -> std::io::Result<usize> {
        if buf.is_empty() { return Ok(0); }
        match self.mode {
            Mode::OneByte => { self.out.push(buf[0]); Ok(1) }
            _ => {
                let once = matches!(self.mode, Mode::ErrorOnce | Mode::ZeroOnce);
                let room = if once && self.failed { usize::MAX } else { self.fail_at.saturating_sub(self.out.len()) };
                if room == 0 {
                    self.failed = true;
                    return if matches!(self.mode, Mode::Error | Mode::ErrorOnce) { Err(std::io::Error::new(std::io::ErrorKind::Other, "sink failure")) } else { Ok(0) };
                }
                let n = room.min(buf.len());
                self.out.extend_from_slice(&buf[..n]);
                Ok(n)
            }
        }
    }
    fn flush(&mut self) -> std::io::Result<()> { Ok(()) }
}

struct Source<'a> { data: &'a [u8], pos: usize, fail_at: usize }
impl Read for Source<'_> {
    fn read(&mut self, buf: &mut [u8]) -> std::io::Result<usize> {
        if self.pos >= self.fail_at { return Err(std::io::Error::new(std::io::ErrorKind::Other, "source failure")); }
        let n = buf.len().min(self.fail_at - self.pos).min(self.data.len() - self.pos);
        buf[..n].copy_from_slice(&self.data[self.pos..self.pos + n]);
        self.pos += n;
        Ok(n)
    }
}

struct Tally { cases: u64, bad: u64 }
impl Tally {
    fn fail(&mut self, what: String) {
        self.bad += 1;
        if self.bad <= 8 { println!("WITNESS unit=C34.io_failures {}", what); }
    }
}

fn object(with_pixels: bool) -> InMemDicomObject {
    let item = InMemDicomObject::from_element_iter([
        DataElement::new(Tag(0x0008, 0x1150), VR::UI, PrimitiveValue::from("1.2.840.10008.5.1.4.1.1.7")),
        DataElement::new(Tag(0x0008, 0x1155), VR::UI, PrimitiveValue::from("1.2.3.4.5")),
    ]);
    let mut elems = vec![
        DataElement::new(Tag(0x0008, 0x0016), VR::UI, PrimitiveValue::from("1.2.840.10008.5.1.4.1.1.7")),
        DataElement::new(Tag(0x0008, 0x0018), VR::UI, PrimitiveValue::from("2.25.123")),
        DataElement::new(Tag(0x0008, 0x0020), VR::DA, PrimitiveValue::from("19991231")),
        DataElement::new(Tag(0x0008, 0x1115), VR::SQ, Value::from(DataSetSequence::new(vec![item], Length::UNDEFINED))),
        DataElement::new(Tag(0x0010, 0x0010), VR::PN, PrimitiveValue::from("Doe^John")),
        DataElement::new(Tag(0x0028, 0x0010), VR::US, dicom_value!(U16, [2])),
        DataElement::new(Tag(0x0028, 0x0011), VR::US, dicom_value!(U16, [3])),
        DataElement::new(Tag(0x0042, 0x0011), VR::OB, dicom_value!(U8, [1, 2, 3])),
    ];
    if with_pixels {
        elems.push(DataElement::new(Tag(0x7FE0, 0x0010), VR::OB, Value::from(PixelFragmentSequence::new(vec![0u32], vec![vec![1u8, 2, 3, 4], vec![5u8, 6]]))));
    } else {
        elems.push(DataElement::new(Tag(0x7FE0, 0x0010), VR::OW, dicom_value!(U16, [1, 2, 3, 4, 5, 6])));
    }
    // the last elements have empty values in the long header form: the header is then the last thing written
    elems.push(DataElement::new(Tag(0x7FE1, 0x0010), VR::LO, PrimitiveValue::from("CREATOR")));
    elems.push(DataElement::new(Tag(0x7FE1, 0x1001), VR::UT, PrimitiveValue::Empty));
    elems.push(DataElement::new(Tag(0x7FE1, 0x1002), VR::OW, PrimitiveValue::Empty));
    InMemDicomObject::from_element_iter(elems)
}

fn describe(mode: Mode) -> &'static str {
    match mode {
        Mode::Error => "failed (and kept failing)", Mode::Zero => "accepted zero bytes (from then on)",
        Mode::ErrorOnce => "failed once (and worked again afterwards)", Mode::ZeroOnce => "accepted zero bytes once (and worked again afterwards)",
        Mode::OneByte => "accepted one byte per call",
    }
}

fn sweep_write(t: &mut Tally, what: &str, write: &dyn Fn(&mut Sink) -> Result<(), String>) -> Option<Vec<u8>> {
    let mut full = Sink { out: Vec::new(), fail_at: usize::MAX, mode: Mode::Error, failed: false };
    t.cases += 1;
    if let Err(e) = write(&mut full) { t.fail(format!("{}: writing to a working sink failed: {}", what, e)); return None; }
    let reference = full.out;
    t.cases += 1;
    let mut slow = Sink { out: Vec::new(), fail_at: usize::MAX, mode: Mode::OneByte, failed: false };
    match write(&mut slow) {
        Ok(()) if slow.out == reference => {}
        Ok(()) => t.fail(format!("{}: a sink accepting one byte per call received {} bytes, a normal sink {}", what, slow.out.len(), reference.len())),
        Err(e) => t.fail(format!("{}: a sink accepting one byte per call made the writer fail: {}", what, e)),
    }
    for mode in [Mode::Error, Mode::Zero, Mode::ErrorOnce, Mode::ZeroOnce] {
        for k in 0..reference.len() {
            t.cases += 1;
            let mut s = Sink { out: Vec::new(), fail_at: k, mode, failed: false };
            let r = std::panic::catch_unwind(std::panic::AssertUnwindSafe(|| write(&mut s)));
            match r {
                Ok(Err(_)) => {}
                Ok(Ok(())) => t.fail(format!("{}: the sink {} at byte offset {} of {}, yet the operation reported success ({} bytes written)", what,
                    describe(mode), k, reference.len(), s.out.len())),
                Err(_) => t.fail(format!("{}: panic when the sink {} at byte offset {}", what, describe(mode), k)),
            }
        }
    }
    Some(reference)
}

fn sweep_read(t: &mut Tally, what: &str, data: &[u8], read: &dyn Fn(Source) -> Result<(), String>) {
    t.cases += 1;
    if let Err(e) = read(Source { data, pos: 0, fail_at: usize::MAX }) { return t.fail(format!("{}: reading the complete stream failed: {}", what, e)); }
    for k in 0..data.len() {
        t.cases += 1;
        let r = std::panic::catch_unwind(std::panic::AssertUnwindSafe(|| read(Source { data, pos: 0, fail_at: k })));
        match r {
            Ok(Err(_)) => {}
            Ok(Ok(())) => t.fail(format!("{}: the source failed at byte offset {} of {}, yet reading reported success", what, k, data.len())),
            Err(_) => t.fail(format!("{}: panic when the source failed at byte offset {}", what, k)),
        }
    }
}

fn main() {
    let mut t = Tally { cases: 0, bad: 0 };
    let syntaxes = [
        (entries::IMPLICIT_VR_LITTLE_ENDIAN.erased(), "Implicit VR LE"),
        (entries::EXPLICIT_VR_LITTLE_ENDIAN.erased(), "Explicit VR LE"),
        (entries::EXPLICIT_VR_BIG_ENDIAN.erased(), "Explicit VR BE"),
    ];
    for with_pixels in [false, true] {
        let obj = object(with_pixels);
        for (ts, name) in &syntaxes {
            let what = format!("data set ({}) in {}", if with_pixels { "encapsulated pixel data" } else { "native pixel data" }, name);
            let bytes = sweep_write(&mut t, &format!("writing a {}", what), &|s: &mut Sink| obj.write_dataset_with_ts(s, ts).map_err(|e| e.to_string()));
            if let Some(bytes) = bytes {
                sweep_read(&mut t, &format!("reading a {}", what), &bytes, &|src: Source| InMemDicomObject::read_dataset_with_ts(src, ts).map(|_| ()).map_err(|e| e.to_string()));
            }
        }
        let file = obj.clone().with_meta(FileMetaTableBuilder::new().transfer_syntax(if with_pixels { "1.2.840.10008.1.2.4.50" } else { "1.2.840.10008.1.2.1" })).expect("meta");
        let what = format!("complete file ({})", if with_pixels { "encapsulated pixel data" } else { "native pixel data" });
        let bytes = sweep_write(&mut t, &format!("writing a {}", what), &|s: &mut Sink| file.write_all(s).map_err(|e| e.to_string()));
        if let Some(bytes) = bytes {
            sweep_read(&mut t, &format!("reading a {}", what), &bytes, &|src: Source| dicom_object::from_reader(src).map(|_| ()).map_err(|e| e.to_string()));
        }
    }
    // (3) receiving PDUs: a stream of three PDUs read through read_pdu_from_wire from a source that reports an I/O error at
    // offset k (for every k) in segments of 1 / 7 / all bytes: the PDUs that lie completely before k are received, the next
    // receive is an error — never a wrong PDU, never a panic
    {
        use dicom_ul::association::read_pdu_from_wire;
        use dicom_ul::pdu::{write_pdu, AbortRQSource, PDataValue, PDataValueType, Pdu, MAXIMUM_PDU_SIZE};
        struct Seg<'a> { data: &'a [u8], pos: usize, fail_at: usize, step: usize }
        impl Read for Seg<'_> {
            fn read(&mut self, buf: &mut [u8]) -> std::io::Result<usize> {
                if self.pos >= self.fail_at { return Err(std::io::Error::new(std::io::ErrorKind::ConnectionReset, "transport failure")); }
                let n = buf.len().min(self.step).min(self.fail_at - self.pos).min(self.data.len() - self.pos);
                buf[..n].copy_from_slice(&self.data[self.pos..self.pos + n]);
                self.pos += n;
                Ok(n)
            }
        }
        let pdus = vec![
            Pdu::ReleaseRQ,
            Pdu::PData { data: vec![PDataValue { presentation_context_id: 1, value_type: PDataValueType::Data, is_last: true, data: vec![1, 2, 3, 4, 5] }] },
            Pdu::AbortRQ { source: AbortRQSource::ServiceUser },
        ];
        let mut stream = Vec::new();
        let mut ends = Vec::new();
        for p in &pdus { write_pdu(&mut stream, p).expect("write"); ends.push(stream.len()); }
        for step in [1usize, 7, 1 << 20] {
            for k in 0..stream.len() {
                t.cases += 1;
                let mut src = Seg { data: &stream, pos: 0, fail_at: k, step };
                let mut buffer = bytes::BytesMut::new();
                let complete = ends.iter().filter(|e| **e <= k).count();
                let r = std::panic::catch_unwind(std::panic::AssertUnwindSafe(|| {
                    let mut got = Vec::new();
                    for _ in 0..pdus.len() + 1 { match read_pdu_from_wire(&mut src, &mut buffer, MAXIMUM_PDU_SIZE, true) { Ok(p) => got.push(p), Err(_) => break } }
                    got
                }));
                match r {
                    Ok(got) => if got.len() > complete || got[..] != pdus[..got.len()] || got.len() < complete {
                        t.fail(format!("receiving PDUs, transport failing at byte offset {} of {} (segments of {} bytes): {} PDUs received ({:?}), {} lie completely before the failure", k, stream.len(), step, got.len(), got.iter().map(|p| p.short_description().to_string()).collect::<Vec<_>>(), complete));
                    },
                    Err(_) => t.fail(format!("receiving PDUs: panic when the transport failed at byte offset {} (segments of {} bytes)", k, step)),
                }
            }
        }
    }
    println!("EXHAUSTIVE unit=C34.io_failures cases={} mismatches={}", t.cases, t.bad);
}
