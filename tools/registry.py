"""registry — which units (contract checks) decide which property.

K(...)  a family of Kani harnesses (placement `ext*` = harness crate with path
        dependencies on /repo; otherwise the name of the /repo package whose module
        carries the `#[cfg(kani)] #[path] mod` hook).
V(...)  a Verus unit: template in /verif/contracts, expanded from /repo on each run.
"""
import os
import subprocess

COMMON_TRUSTED = [
    "rustc / LLVM of the pinned toolchains",
    "Kani 0.68 MIR->GOTO translation, CBMC 6.11, CaDiCaL",
    "Verus 0.2026.09.13, Z3, vstd specifications of Vec/slice/Option/Result",
    "tools/vextract.py + tools/rsx.py (text extraction, declared rewrites)",
]


def K(id, crate, harnesses, desc, fns=(), complete=True, bound=None, tier="quick", timeout=600, canary=None):
    return dict(id=id, engine="kani", crate=crate, harnesses=list(harnesses), desc=desc, fns=list(fns),
                complete=complete, bound=bound, tier=tier, timeout=timeout, canary=canary)


def V(id, template, desc, expected_verified=None, tier="quick", timeout=600, rlimit=None, witness=None):
    return dict(id=id, engine="verus", template=template, desc=desc, expected_verified=expected_verified,
                tier=tier, timeout=timeout, rlimit=rlimit, witness=witness, complete=True, fns=[])


def N(id, cmd, desc, bound, tier="quick", timeout=1800, fns=()):
    """Native exhaustive / enumerative stand-in: a program linked against /repo that compares the real
    function with an executable twin of the spec over a stated finite domain. NEVER counted as proved."""
    return dict(id=id, engine="native", cmd=cmd, desc=desc, bound=bound, tier=tier, timeout=timeout, complete=False, fns=list(fns))


def run_witness(w):
    try:
        p = subprocess.run(w["cmd"], shell=True, cwd=w.get("cwd", "/verif"), stdout=subprocess.PIPE,
                           stderr=subprocess.STDOUT, timeout=w.get("timeout", 900), text=True)
        out = "\n".join(p.stdout.splitlines()[-40:])
        return ("WITNESS" in p.stdout), out
    except subprocess.TimeoutExpired:
        return False, "witness search timed out"


ENC = "encoding/src/encode/"
DEC = "encoding/src/decode/"


def _enc_fns(fnname):
    return [
        (ENC + "explicit_le.rs", fnname, r"impl\s+Encode\s+for\s+ExplicitVRLittleEndianEncoder"),
        (ENC + "explicit_be.rs", fnname, r"impl\s+Encode\s+for\s+ExplicitVRBigEndianEncoder"),
        (ENC + "implicit_le.rs", fnname, r"impl\s+Encode\s+for\s+ImplicitVRLittleEndianEncoder"),
    ]


PROPS = {}
_WR2 = ("cp /repo/Cargo.lock /verif/witness/Cargo.lock && CARGO_TARGET_DIR=/verif/build/witness cargo run --offline -q --release "
        "--manifest-path /verif/witness/Cargo.toml --bin %s 2>&1 | grep -E '^(WITNESS|EXHAUSTIVE|SKIPPED|error)' | tail -220")

# ----------------------------------------------------------------------- C03
PROPS["C03"] = dict(
    level="proof",
    units=[
        K("C03.enc_header", "ext",
          ["c03::c03_enc_header_explicit_le", "c03::c03_enc_header_explicit_be", "c03::c03_enc_header_implicit_le"],
          "encode_element_header: for every VR, tag and u32 length the bytes written are the PS3.5 7.1.2 layout; "
          "Err <=> explicit && 16-bit form && len > 0xFFFF (never truncated)",
          fns=_enc_fns("encode_element_header"), canary="canary::canary_must_fail"),
        K("C03.enc_item", "ext",
          ["c03::c03_enc_item_explicit_le", "c03::c03_enc_item_explicit_be", "c03::c03_enc_item_implicit_le"],
          "encode_item_header / encode_item_delimiter / encode_sequence_delimiter: tag FFFE,E000/E00D/E0DD + 32-bit length",
          fns=_enc_fns("encode_item_header") + _enc_fns("encode_item_delimiter") + _enc_fns("encode_sequence_delimiter")),
        K("C03.dec_header", "ext",
          ["c03::c03_dec_header_explicit_le", "c03::c03_dec_header_explicit_be", "c03::c03_dec_header_implicit_le"],
          "decode_header on any 12 (8) bytes: tag, VR, length and bytes_read are what the layout prescribes, the source "
          "is advanced by exactly bytes_read, undefined VR codes are not recognised as a defined VR; implicit decoder "
          "against a symbolic dictionary (contract only)",
          fns=[(DEC + "explicit_le.rs", "decode_header", r"impl\s+Decode\s+for\s+ExplicitVRLittleEndianDecoder"),
               (DEC + "explicit_be.rs", "decode_header", r"impl\s+Decode\s+for\s+ExplicitVRBigEndianDecoder"),
               (DEC + "implicit_le.rs", "decode_header", r"impl<D>\s+Decode\s+for\s+ImplicitVRLittleEndianDecoder")]),
        K("C03.dec_item", "ext",
          ["c03::c03_dec_item_explicit_le", "c03::c03_dec_item_explicit_be", "c03::c03_dec_item_implicit_le",
           "c03::c03_dec_item_adaptive_le"],
          "decode_item_header on any 8 bytes: accepted iff FFFE,E000/E00D/E0DD (delimiters with zero length accepted), "
          "length = 32-bit field, 8 bytes consumed",
          fns=[(DEC + "explicit_le.rs", "decode_item_header", r"impl\s+Decode\s+for\s+ExplicitVRLittleEndianDecoder"),
               (DEC + "explicit_be.rs", "decode_item_header", r"impl\s+Decode\s+for\s+ExplicitVRBigEndianDecoder"),
               (DEC + "implicit_le.rs", "decode_item_header", r"impl<D>\s+Decode\s+for\s+ImplicitVRLittleEndianDecoder"),
               (DEC + "adaptive_le.rs", "decode_item_header", r"impl<D>\s+Decode\s+for\s+AdaptiveVRLittleEndianDecoder"),
               ("core/src/header.rs", "new", r"impl\s+SequenceItemHeader")]),
        K("C03.roundtrip", "ext", ["c03::c03_roundtrip_explicit_le", "c03::c03_roundtrip_explicit_be"],
          "decode_header(encode_element_header(h)) == (h, n) whenever encoding succeeds (tag group != FFFE)"),
        K("C03.vr_codes", "ext", ["c03::c03_vr_codes", "c03::c03_vr_to_from_string"],
          "VR::from_binary recognises exactly the 34 defined codes (all 65 536 codes), to_bytes/to_string/from_str are inverse",
          fns=[("core/src/header.rs", "from_binary", r"impl\s+VR\b"), ("core/src/header.rs", "to_bytes", r"impl\s+VR\b"),
               ("core/src/header.rs", "from_str", r"impl\s+FromStr\s+for\s+VR")]),
    ],
    assumptions=["sink is a 12-byte slice (std `impl Write for &mut [u8]`), i.e. the writer itself cannot fail; "
                 "failing writers are C34"],
    uncovered=[],
)

# ----------------------------------------------------------------------- C26
PROPS["C26"] = dict(
    level="proof",
    units=[
        V("C26.pdata_writer", "c26_pdata_writer.vrs",
          "setup_pdata_header, PDataWriter::{new, write, dispatch_pdu, finish_impl}: every PDU sent is a well-formed "
          "single-PDV P-DATA-TF within max_pdu_length, only finish marks last, payloads concatenate to the bytes "
          "accepted, write returns the bytes taken and makes progress, transport errors are propagated",
          expected_verified=11),
        V("C26.pdata_reader", "c26_pdata_reader.vrs",
          "<PDataReader as Read>::read: for any segmentation of the transport, a call either serves buffered payload, or returns 0 after "
          "the last fragment, or receives PDUs of the logical stream until one brings payload or is marked last (the ones before it are "
          "P-DATA PDUs without any payload; nothing else is skipped), appends the data of that PDU's values in order, records the last flag, "
          "and leaves exactly the rest of the stream for the next receive; a read of 0 bytes into a non-empty buffer happens only when "
          "the message is complete (postcondition taken from the property; defect S44); both receive loops terminate",
          expected_verified=10),
        N("C26.writer_messages",
          "cp /repo/Cargo.lock /verif/witness/Cargo.lock && CARGO_TARGET_DIR=/verif/build/witness cargo run --offline -q --release "
          "--manifest-path /verif/witness/Cargo.toml --bin c26_writer_messages 2>&1 | grep -E '^(WITNESS|EXHAUSTIVE|SKIPPED|error)' | tail -220",
          "message level, on the compiled synchronous PDataWriter through a real association over a loopback TCP connection inside the process "
          "(acceptor maximum PDU length = the library's minimum): payloads of 0, 1, 2 bytes and around 1x, 2x, 3x the maximum data length, "
          "written in one write, byte by byte, in 7 / 500 / 1000-byte writes, in writes straddling the PDU boundary and after an empty "
          "write: every PDU received is a P-DATA-TF of length <= the maximum with exactly one value for the chosen presentation context, "
          "only the final one marked last, and the values concatenate to the payload (skipped, not failed, where loopback TCP is unavailable)",
          bound="84 cases: 77 (payload size, write schedule) pairs + 7 peer maximum PDU lengths (1, 4, 5, 6: no room for data, the writer must fail; 7, 8, 20) announced by a hand-written acceptor (native run of the compiled code; not a deductive result)",
          fns=[("ul/src/association/pdata.rs", "setup_pdata_header")], timeout=600),
        N("C26.async",
          "cp /repo/Cargo.lock /verif/witness/Cargo.lock && CARGO_TARGET_DIR=/verif/build/witness cargo run --offline -q --release "
          "--manifest-path /verif/witness/Cargo.toml --bin c26_async 2>&1 | grep -E '^(WITNESS|EXHAUSTIVE|SKIPPED|error)' | tail -220",
          "the asynchronous clauses, on the compiled code (dicom-ul built with the `async` feature, tokio runtime inside the process): the "
          "asynchronous writer through an asynchronous requestor association over loopback TCP — same payload sizes and write schedules as "
          "C26.writer_messages, PDUs inspected by a synchronous acceptor; the asynchronous reader (AsyncRead for PDataReader) on "
          "writer-shaped messages from a mock transport delivering segments of 1 / 5 / 13 / all bytes and answering Pending on every other "
          "poll, caller buffers of 1 / 2 / 64 bytes: exactly the payload, exactly the following bytes left; the asynchronous writer under "
          "back-pressure: 8 / 12 / 24 MiB (more than the loopback socket buffers hold) written in chunks that do not line up with the PDU data "
          "length to an acceptor that starts reading after 1.5 s and reads slowly, so that the transport accepts PDUs in part and answers "
          "Pending in between: every PDU well-formed, the values concatenate to the payload (the writer parts are skipped, not failed, where "
          "loopback TCP is unavailable)",
          bound="1915 cases: 40 writer (payload, schedule) pairs + 1872 reader (message shape incl. empty non-final values, continuation, segment size, buffer size) cases "
                "+ 3 back-pressure runs (native run of the compiled code; Pending patterns of a real socket are whatever the kernel produces; "
                "not a deductive result)",
          fns=[("ul/src/association/pdata.rs", "setup_pdata_header")], timeout=900),
        N("C26.reader_messages",
          "cp /repo/Cargo.lock /verif/witness/Cargo.lock && CARGO_TARGET_DIR=/verif/build/witness cargo run --offline -q --release "
          "--manifest-path /verif/witness/Cargo.toml --bin c26_reader_messages 2>&1 | grep -E '^(WITNESS|EXHAUSTIVE|SKIPPED|error)' | tail -220",
          "message level, on the compiled PDataReader (survives restructurings of `read` that the extracted-text proof cannot follow): "
          "writer-shaped messages (1-3 P-DATA PDUs, one value each, only the final one marked last, final value possibly empty) followed by "
          "nothing / a second message / A-RELEASE-RQ: reading until Ok(0) returns exactly the payload and read_buffer ++ transport holds "
          "exactly the bytes that follow",
          bound="3780 cases: 84 message shapes (non-final values of 0-3 bytes: an EMPTY non-final value must not end the message) x 3 continuations x 5 transport segment sizes x 3 caller buffer sizes (native enumeration of "
                "the compiled code; not a deductive result)",
          fns=[("ul/src/association/pdata.rs", "read", r"impl<R>\s+Read\s+for\s+PDataReader")]),
    ],
    assumptions=[
        "reader: read_pdu represented by the contract first_pdu with the assumed prefix-stability axiom (as C27); BufReader treated as transparent; "
        "VecDeque<u8> as a byte queue; consuming `for` over the values rewritten to an index loop; presentation-context mismatch only logs (warn!) and is dropped",
        "precondition 6 <= max_pdu_length <= 0xFFFF_FFF9 at PDataWriter::new (callers pass the negotiated length; not verified)",
        "64-bit usize; slices are at most isize::MAX bytes",
        "one write_all call = one PDU handed to the transport (std::io::Write::write_all contract assumed)",
        "`impl Write for PDataWriter`::write verified as an inherent method (Verus rejects requires on trait impls)",
        "Drop for PDataWriter discards finish_impl's result by design; the public finish() propagates it",
    ],
    uncovered=["AsyncPDataWriter and the asynchronous P-DATA reader deductively (Poll/Pin/Context; no async support in either verifier): only the "
               "native unit C26.async runs them, which found and led to the repair of the exact-fill Ok(0) defect S20 (the asynchronous twin of S7)"],
)

# ----------------------------------------------------------------------- C08
_AD = DEC + "adaptive_le.rs"
_H = "decode::adaptive_le::verif_harness::"
PROPS["C08"] = dict(
    level="proof",
    units=[
        K("C08.first_header", "dicom-encoding", [_H + "c08_first_header"],
          "AdaptiveVRLittleEndianDecoder::decode_header in state Unknown, any 12 bytes, any dictionary answer: explicit "
          "data (bytes 4..6 spell a VR the dictionary does not contradict) is read exactly as ExplicitVRLittleEndianDecoder "
          "reads it and locks Explicit; otherwise exactly as ImplicitVRLittleEndianDecoder<D> and locks Implicit; "
          "delimiters decide nothing",
          fns=[(_AD, "decode_header", r"impl<D>\s+Decode\s+for\s+AdaptiveVRLittleEndianDecoder"),
               (_AD, "decode_explicit_length"), (_AD, "decode_explicit_header"), (_AD, "decode_implicit_length"),
               (_AD, "resolve_vr")]),
        K("C08.locked", "dicom-encoding", [_H + "c08_locked_explicit", _H + "c08_locked_implicit"],
          "every later header: a locked decoder equals the corresponding decoder on any 12 bytes and never unlocks "
          "(induction over the stream is then immediate)"),
        K("C08.vr_compatible", "dicom-encoding", [_H + "c08_vr_compatible"],
          "vr_compatible_with_virtual == meaning of the virtual VRs (34 x 38 table)",
          fns=[(_AD, "vr_compatible_with_virtual")]),
        N("C08.streams", _WR2 % "c08_streams",
          "on the compiled decoders with the REAL standard dictionary: header streams whose first element is unambiguous are read by the "
          "adaptive decoder exactly as by the decoder of the true encoding — tag, VR, length and reported header size of the first element "
          "and of everything that follows (all 34 VRs in both length forms, an item, delimiters): explicit streams starting with each of 22 "
          "attributes (exact VRs, the virtual VRs Xs / Ox / Px / Lt, private, unknown) in each real VR their entry allows; implicit streams "
          "with value lengths 0-40 and the lengths whose low bytes spell a VR code the entry does not allow (survives renamings of the "
          "decoder's private state that the in-module Kani harness depends on)",
          bound="2168 streams (native enumeration of the compiled code; not a deductive result)",
          fns=[(_AD, "vr_compatible_with_virtual")]),
    ],
    assumptions=[
        "dictionary abstracted by its contract: by_tag answers one arbitrary fixed Option<entry> for the tag looked up",
        "in group FFFE only item/delimiter tags occur and the dictionary has no entry for them (locked-implicit unit)",
        "explicit data whose first VR contradicts the dictionary entry is outside the property as read (DESIGN.md C08)",
    ],
    uncovered=["DataSetReader option plumbing (flexible_decoding)"],
)

# ----------------------------------------------------------------------- C18
_FR = "core/src/value/fragments.rs"
_single = ["c18::c18_frag_n%d_fs%d" % t for t in
           [(1, 0), (2, 0), (3, 0), (4, 0), (5, 0), (1, 1), (3, 1), (4, 2), (5, 2), (6, 2), (5, 3), (6, 4), (7, 4), (0, 2), (0, 0)]]
PROPS["C18"] = dict(
    level="proof",
    units=[
        V("C18.encode_default", "c18_encode_default.vrs",
          "default PixelDataWriter::encode (multi-frame driver used by transcoding), encode_frame as abstract callee: one "
          "fragment and one basic-offset-table entry per frame, entry i = sum over earlier frames of (8 + even-padded "
          "fragment length), first entry 0; no 32-bit overflow when the encapsulated data fits 4 GiB",
          expected_verified=7,
          witness=dict(cmd="cp /repo/Cargo.lock /verif/witness/Cargo.lock && CARGO_TARGET_DIR=/verif/build/witness "
                           "cargo run --offline -q --manifest-path /verif/witness/Cargo.toml --bin c18_encode 2>&1 | tail -3")),
        V("C18.frame_pixel_data", "c18_frame_pixel_data.vrs",
          "default PixelDataObject::frame_pixel_data, encapsulated arms: with one fragment per frame the frame's data is its fragment; "
          "otherwise it is the concatenation, in order, of exactly the fragments whose item offset (sum of 8 + length of the earlier "
          "fragments) lies in [table[frame], table[frame+1]) (to the end for the last frame), for any number of fragments and frames",
          expected_verified=6),
        V("C18.from_fragments", "c18_from_fragments.vrs",
          "From<Vec<Fragments>> for PixelFragmentSequence, ANY number of frames: no frames => empty table and no fragments; otherwise one "
          "offset-table entry per frame, entry i = sum over the earlier frames of the bytes their items occupy (8 + fragment length each; "
          "first entry 0), and the fragment list is the concatenation of the frames' fragments in order (Fragments::len as contract)",
          expected_verified=12),
        V("C18.fragments_new_any", "c18_fragments_new.vrs",
          "Fragments::new(data, fragment_size) for ANY data length and fragment size: with fs = the effective size (fragment_size, or "
          "max(|data|, 1) when 0, rounded up to even) there are ceil(|data| / fs) fragments of exactly fs bytes each (even), byte j of "
          "fragment i is data[i*fs + j] or 0 beyond the data (less than one fragment of zero padding); no division by zero, no overflow",
          expected_verified=5),
        N("C18.encode_native", _WR2 % "c18_encode",
          "on the compiled default PixelDataWriter::encode with an encode_frame that emits frames of chosen lengths: one fragment and one "
          "offset-table entry per frame, entry i = sum over the earlier frames of (8 + even-padded length), first entry 0; every fragment is "
          "its frame's bytes padded to even length with one zero byte",
          bound="2406 frame-length vectors: 1-3 frames of 0-9 bytes, 4 frames of 0-5 bytes (native enumeration of the compiled code; not a "
                "deductive result)",
          fns=[("encoding/src/adapters.rs", "encode", r"pub\s+trait\s+PixelDataWriter")]),
        N("C18.encapsulation", _WR2 % "c18_encapsulation",
          "on the compiled code, incl. the real iterator chains (chunks_exact, fold) that the Verus units represent by contracts: "
          "Fragments::new + From<Vec<Fragments>> for 1-6 frames of 0-9 bytes (single frames also with fragment sizes 1-5): fragments even, "
          "= frame data + zero padding of less than a fragment, offset table entry per frame = 8 bytes + length of every earlier fragment, "
          "first entry 0; default frame_pixel_data on those objects and on multi-fragment frames with an explicit offset table (1-4 frames x "
          "1-4 fragments): frame i's data is exactly the concatenation of its fragments",
          bound="128 image shapes (native enumeration of the compiled code; not a deductive result)",
          fns=[(_FR, "len", r"impl\s+Fragments\b")]),
        N("C18.transcode", _WR2 % "c18_transcode",
          "on the compiled code, the TRANSCODING clause: native images (8 bit x 1 / 3 samples, 16 bit x 1 sample; 1-3 frames; odd and even "
          "frame sizes) transcoded (dicom_pixeldata::Transcode) into every registered encapsulated transfer syntax that has an encoder in "
          "this build (3: Encapsulated Uncompressed, Deflated Image Frame Compression, JPEG Baseline): one offset table entry per frame, "
          "entry i = byte offset of frame i's first item from the first item after the table, in memory and as found by an independent walk "
          "of the WRITTEN data set where every fragment item has even length; Number of Frames matches; Encapsulated Pixel Data Value Total "
          "Length, when set, equals the total length of all fragments",
          bound="81 transcodings (21 image shapes x 3 encoder targets, odd-sized native values also with their padding byte; each followed by the way back to native; native enumeration of the compiled code; not a deductive result)",
          fns=[("pixeldata/src/transcode.rs", "transcode_with_options", r"impl<D>\s+Transcode\s+for"),
               ("transfer-syntax-registry/src/adapters/deflated.rs", "encode_frame", r"impl\s+PixelDataWriter\s+for\s+DeflatedImageFrameAdapter")]),
        K("C18.fragments_new", "ext", _single,
          "Fragments::new + From<Vec<Fragments>> (single frame): every fragment even and of equal size, fragments "
          "concatenate to the data followed by < 1 fragment of zero padding, offset table [0]",
          fns=[(_FR, "new", r"impl\s+Fragments"), (_FR, "from", r"impl\s+From<Vec<Fragments>>")],
          complete=False, bound="data length <= 7 and fragment size <= 4, both concrete per harness (15 combinations); byte contents symbolic",
          timeout=300),
        K("C18.offset_table_multi", "ext", ["c18::c18_bot_2_4", "c18::c18_bot_3_1"],
          "From<Vec<Fragments>> (multi-frame, one fragment per frame) + Fragments::len: offset table = prefix sums of "
          "(8 + fragment length), first entry 0, one entry per frame",
          fns=[(_FR, "len", r"impl\s+Fragments"), (_FR, "from", r"impl\s+From<Vec<Fragments>>")],
          complete=False, bound="2 frames of concrete lengths (2,4), (3,1); contents symbolic", timeout=300),
        K("C18.offset_table_multi3", "ext", ["c18::c18_bot_4_6_2", "c18::c18_bot_1_1_1"],
          "same with three frames", complete=False, bound="3 frames of concrete lengths (4,6,2), (1,1,1)", tier="thorough",
          timeout=600),
    ],
    assumptions=[
        "encode_frame represented by its contract only (appends at most frame_len_bound bytes to the vector it is given)",
        "precondition: dst and offset_table are empty on entry (both call sites in pixeldata/src/transcode.rs pass new vectors; not verified)",
        "precondition: frames * (max frame length + 9) <= 2^32-1 (the 32-bit basic offset table cannot express more)",
        "&dyn PixelDataObject rewritten to &impl PixelDataObject in the verified text",
        "from_fragments / fragments_new_any: SmallVec as Vec; into_iter().enumerate() as an index loop; panic! as unreachable under the documented precondition "
        "(one fragment per frame in multi-frame data); u32::max / u32::div_ceil / chunks_exact by their std meaning; data and offsets fit 32 bits",
        "frame_pixel_data: preconditions — the encapsulated data fits 32-bit offsets and the basic offset table is strictly increasing around the "
        "requested frame and within the data; Cow<[T]> modelled by its content; the native (None) arm is cut and replaced by an abstract callee",
    ],
    uncovered=["the iterator chain chunks_exact().map().collect() inside Fragments::new beyond the Kani bound (represented by its std meaning in the Verus unit)",
               "Fragments::len beyond the Kani bound (iterator fold; contract in the Verus unit C18.from_fragments)",
               "frame_pixel_data for native pixel data (cut: C21)", "ENCAPSULATED_PIXEL_DATA_VALUE_TOTAL_LENGTH in transcode.rs (inline in a whole-object function)",
               "pixeldata/src/encapsulation.rs helpers"],
)

# ----------------------------------------------------------------------- C15
_DD = "dictionary-std/src/data_element.rs"
PROPS["C15"] = dict(
    level="proof",
    units=[
        V("C15.lookup", "c15_dictionary.vrs",
          "StandardDataDictionary::indexed_tag == the precedence of the statement (exact, repeating group, repeating "
          "element, private creator, group length, nothing) for every tag, over the registry view (by_tag, ggxx, eexx); "
          "StandardDataDictionaryRegistry::index files each entry under TagRange::inner and registers repeating ranges, "
          "preserving the registry invariant; TagRange::inner; StandardDataDictionaryRegistry::new gives an empty registry and "
          "init_dictionary (the loop that builds the singleton) returns a registry that satisfies the invariant indexed_tag requires, with every "
          "row of the table filed under its inner tag and every repeating row registered — for a table of ANY length",
          expected_verified=11),
        N("C15.exhaustive",
          "cp /repo/Cargo.lock /verif/witness/Cargo.lock && CARGO_TARGET_DIR=/verif/build/witness cargo run --offline -q --release "
          "--manifest-path /verif/witness/Cargo.toml --bin c15_exhaustive 2>&1 | grep -E '^(WITNESS|EXHAUSTIVE|SKIPPED|error)' | tail -220",
          "every one of the 2^32 tags: StandardDataDictionary::by_tag == the statement's precedence evaluated over the table rows "
          "parsed from the text of dictionary-std/src/tags.rs (exact, repeating group, repeating element, private creator, group length, none); "
          "every keyword of the table resolves through by_name / by_expr / parse_tag to an entry with that keyword and tag, near-miss spellings "
          "(other case, padded) resolve to nothing, the three text forms of a tag resolve to its entry; every row of the SOP class table (text "
          "of uids.rs) is found by UID and by keyword as the same entry, UIDs unique",
          bound="exhaustive over all 4 294 967 296 tags, all 5344 table rows / keywords and all SOP class rows (finite domains, compiled code; "
                "not a deductive proof)",
          fns=[(_DD, "indexed_tag", r"impl\s+StandardDataDictionary\b")]),
    ],
    assumptions=[
        "C15.exhaustive is an enumeration of the compiled code over all 2^32 tags against the table read from the text of tags.rs — a stand-in "
        "that survives representation refactors of the registry; it is not a deductive result and is not counted in obligations/discharged",
        "HashMap/HashSet get/insert/contains behave as Map/Set (std collections assumed)",
        "registry() returns the registry built by init_dictionary (the once_cell lazy static DICT is not verified); init_dictionary itself and "
        "StandardDataDictionaryRegistry::new are under contract: the result satisfies the registry invariant that indexed_tag requires, every row "
        "of ENTRIES is filed under its inner tag and every repeating row is registered (loop invariant over the table; `for entry in ENTRIES` is "
        "rewritten to an index loop over an abstract static slice — declared rewrite; HashMap/HashSet::with_capacity/new give empty collections)",
        "Option::or_else contract assumed (calls the closure iff None); closure postconditions are ghost annotations inserted by a declared rewrite",
        "(lo..=hi).contains(&x) rewritten to a verified helper with the same meaning",
    ],
    uncovered=["content of the generated ENTRIES vs. the published PS3.6 table", "tag constants (compile-time items of the generated file)", "UID dictionaries other than SOP classes"],
)

# ----------------------------------------------------------------------- C07
_WR = ("cp /repo/Cargo.lock /verif/witness/Cargo.lock && CARGO_TARGET_DIR=/verif/build/witness cargo run --offline -q --release "
       "--manifest-path /verif/witness/Cargo.toml --bin %s 2>&1 | grep -E '^(WITNESS|EXHAUSTIVE|SKIPPED|error)' | tail -220")
_W = ("cp /repo/Cargo.lock /verif/witness/Cargo.lock && CARGO_TARGET_DIR=/verif/build/witness cargo run --offline -q "
      "--manifest-path /verif/witness/Cargo.toml --bin %s 2>&1 | grep -v '^thread\\|^note\\|panicked\\|^ ' | tail -16")
PROPS["C07"] = dict(
    level="proof",
    units=[
        V("C07.stateful_decoder", "c07_stateful_decoder.vrs",
          "StatefulDecoder: every value reader (all VRs, via the three dispatchers read_value / read_value_preserved / "
          "read_value_bytes), read_to, read_to_vec, skip_bytes, read_u32(_to_vec), decode_header, decode_item_header: on "
          "success the reported position and the bytes consumed from the source advance by exactly the same amount, which "
          "for values is exactly the declared length (for every u32 length, no bound)",
          expected_verified=49, witness=dict(cmd=_W % "c07_positions")),
        V("C07.sanitize", "c07_sanitize.vrs",
          "DataSetReader::sanitize_length and LazyDataSetReader::sanitize_length == the three strategies of the statement "
          "(Accept: same, NextEven: +1, Fail: None; even/undefined untouched), Length::{is_defined,is_undefined}, Length + i32 "
          "never overflows",
          expected_verified=11, witness=dict(cmd=_W % "c07_sanitize")),
        N("C07.dataset", _WR2 % "c07_dataset",
          "data-set level, on the compiled DataSetReader (Explicit VR LE): an element of every VR with an odd declared length (1-13) at top "
          "level and inside a defined-length item of a defined-length sequence, each followed by a sentinel element: Accept consumes exactly "
          "the declared bytes, NextEven one more, Fail reports an error as the first token; the sentinel, ItemEnd and SequenceEnd tokens "
          "come at the right places and the source is consumed exactly to its end",
          bound="1936 cases: 3 strategies x 32 VRs x 7 odd lengths, plus (Accept / NextEven) the same element alone inside an item whose own declared length is odd; the LazyDataSetReader (values skipped, and values read) on 10 VRs x 4 odd lengths x 3 strategies, inside an undefined-length sequence and inside a DEFINED-length sequence whose own declared length is odd (the latter also through the eager reader); encapsulated pixel data with an offset table of 0 / 4 / 8 bytes and of lengths that are not a multiple of 4 (5, 7, 6, 2, 1) and a first fragment of odd declared length under the 3 strategies, eager and lazy (native enumeration of the compiled code; not a deductive result)",
          fns=[("parser/src/dataset/read.rs", "next", r"impl<S>\s+Iterator\s+for\s+DataSetReader"), ("parser/src/dataset/lazy_read.rs", "advance")]),
        N("C07.value_readers_native", _W % "c07_positions",
          "on the compiled StatefulDecoder: read_value / read_value_preserved / read_value_bytes for every VR, declared lengths 0-17 and four "
          "fill patterns, read_to_vec / skip_bytes on short sources: reported position == bytes consumed from the source == declared length",
          bound="about 8000 (reader, VR, length, fill) cases (native enumeration of the compiled code; not a deductive result)"),
        V("C07.seq_delimiters", "c07_seq_delimiters.vrs",
          "DataSetReader / LazyDataSetReader::{push_sequence_token, update_seq_delimiters}: a sequence / item of defined length is closed "
          "(SequenceEnd / ItemEnd, stack popped, in_sequence updated) exactly when the reader position equals position-at-value-start + "
          "declared length; a position beyond that end is an error (no silent resynchronisation); otherwise, and for undefined lengths, "
          "nothing is closed and the stack is unchanged; Length::get",
          expected_verified=9),
    ],
    assumptions=[
        "Read::read_exact / BasicDecode::decode_*_into / decode_tag consume exactly the bytes they are documented to read (ghost counter); "
        "DecodeFrom::decode_header consumes the bytes_read it reports (proved for the three real codecs in C03/C08)",
        "io::copy(take(n)) consumes at most n bytes and returns the count (std assumed)",
        "text-parsing iterator chains (split/map/collect) and validate_* are replaced by opaque callees: parsed content is not part of C07",
        "closures mutating self.position (`.map(|..| {self.position += bytes_read})`, `.inspect(|_| self.position += 8)`) are replaced by shims with that meaning",
        "precondition room(position, len): position + len fits u64; recorded base offsets are below 2^64 - 2^32 (C07.seq_delimiters)",
        "C07.seq_delimiters: the readers are represented by the four fields the two functions touch; DataToken / LazyDataToken by the two variants produced; u64::cmp by vstd's specification",
        "determine_vr_based_on_pixel_representation / character-set update do not touch the source (not verified)",
        "64-bit usize",
    ],
    uncovered=["DataSetReader / LazyDataSetReader token loops (how sanitize_length's result is used; defined-length item end detection)"],
)

# ----------------------------------------------------------------------- C25
PROPS["C25"] = dict(
    level="proof",
    units=[
        V("C25.write_chunk", "c25_write_chunk.vrs",
          "write_chunk_u16 / write_chunk_u32 (every length-prefixed item and sub-item of every PDU goes through them): on "
          "success the output is the big-endian length of the content followed by the content and the content fits the "
          "length field; content that does not fit makes the call fail (never a truncated length)",
          expected_verified=6, witness=dict(cmd=_W % "c25_chunk")),
        V("C25.read_pdu_head", "c25_read_pdu_head.vrs",
          "read_pdu framing head: any strict prefix of header + declared content reads as Ok(None); strict mode rejects "
          "pdu_length > max_pdu_length; an invalid max_pdu_length is rejected; bytes::Buf accessors are never called beyond "
          "the bytes available (no panic)",
          expected_verified=6, witness=dict(cmd=_WR2 % "c25_pdus")),
        V("C25.read_pdu_variable", "c25_read_pdu_variable.vrs",
          "read_pdu_variable framing head (every variable item of A-ASSOCIATE-RQ / -AC): any strict prefix of the 4-byte item header + "
          "declared content reads as Ok(None); a complete item hands exactly its declared content (type = byte 0, length = bytes 2..4 big "
          "endian, content = the next `length` bytes and nothing of what follows) to the per-type decoding; bytes::Buf accessors are never "
          "called beyond the bytes available (no panic)",
          expected_verified=1, witness=dict(cmd=_WR2 % "c25_pdus")),
        N("C25.pdus", _WR2 % "c25_pdus",
          "on the compiled write_pdu / read_pdu (Kani aborts on both): well-formed PDUs of every type (A-ASSOCIATE-RQ / -AC with 0-2 "
          "presentation contexts and every kind of user-information sub-item, alone and all together; every A-ASSOCIATE-RJ and A-ABORT "
          "value; P-DATA-TF with 1-2 values of 0-3 bytes; A-RELEASE-RQ / -RP; unknown types): an independent reader of the PS3.8 length "
          "structure finds every PDU, item, sub-item and PDV length equal to the content it describes; the PDU reads back equal consuming "
          "exactly its bytes (also when more bytes follow); every strict prefix reads as incomplete; item content of 65535 bytes is "
          "written and read back while 65536 bytes make writing fail; strict mode rejects a PDU one byte above the maximum",
          bound="246 cases: 238 PDUs and every one of their strict prefixes, 8 PDUs with an AE title longer than its 16-byte field (must be refused) (native enumeration of the compiled code; not a deductive result)",
          fns=[("ul/src/pdu/writer.rs", "write_pdu"), ("ul/src/pdu/reader.rs", "read_pdu")]),
    ],
    assumptions=[
        "the chunk builder closure is an abstract callee producing arbitrary content",
        "std::io::Write::write_all and byteorder write_u16/u32::<BigEndian> append exactly those bytes",
        "bytes::Buf accessors behave as documented (panic when fewer bytes remain: modelled as preconditions)",
        "read_pdu is CUT after the framing head: the per-PDU-type decoding (~480 lines) is an abstract callee and is NOT verified",
    ],
    uncovered=[
        "write_pdu -> read_pdu equality for each PDU type (Kani 0.68 hits an internal compiler error on anything reaching "
        "dicom-ul's reader/writer: kani-compiler/src/intrinsics.rs:243; the functions are outside Verus' subset: bytes::Bytes, String, closures over &mut Vec)",
        "independent PS3.8 parser of the written bytes", "AE titles longer than 16 bytes are silently truncated by resize(16)",
    ],
)

# ----------------------------------------------------------------------- C11
_PV = "core/src/value/primitive.rs"
_EXT = ["u16", "i16", "i32", "u32", "f32", "f64"]
_EXT_TARGETS = ["u8", "u16", "i16", "u32", "i32", "u64", "i64", "f32", "f64", "empty", "tags"]
_SRC = ["u8", "u16", "i16", "u32", "i32", "u64", "i64"]
_DST = ["u8", "i8", "u16", "i16", "u32", "i32", "u64", "i64"]
_ALL_TO_INT = ["c11::c11_to_int_%s_%s" % (s, d) for s in _SRC for d in _DST]
_QUICK_TO_INT = ["c11::c11_to_int_%s_%s" % t for t in
                 [("u16", "u8"), ("i16", "u16"), ("u32", "i32"), ("i32", "u32"), ("u64", "i64"), ("i64", "u64"),
                  ("u8", "i8"), ("u64", "u8"), ("i64", "i8"), ("u32", "u16"), ("i32", "i16"), ("i16", "i8"),
                  ("u16", "i16"), ("i64", "i32"), ("u64", "u32"), ("u8", "u64")]]
_ALL_MULTI_N1 = ["c11::c11_multi_int_%s_%s_n1" % (s, d) for s in _SRC for d in _DST]
_QUICK_MULTI_N1 = ["c11::c11_multi_int_%s_%s_n1" % t for t in
                   [("u8", "u8"), ("u8", "i8"), ("u16", "u16"), ("u16", "i64"), ("i16", "i16"), ("i16", "u64"), ("u32", "u32"), ("u32", "i64"),
                    ("i32", "i32"), ("i32", "u64"), ("u64", "u64"), ("u64", "i64"), ("i64", "i64"), ("i64", "u64")]]
PROPS["C11"] = dict(
    level="proof",
    units=[
        K("C11.to_int", "ext", _QUICK_TO_INT,
          "PrimitiveValue::to_int::<T>() on a one-item binary integer value, any stored number: Ok(v) <=> representable in T, "
          "and then v is exactly the stored number (never wrapped or truncated)",
          fns=[(_PV, "to_int", r"impl\s+PrimitiveValue")], timeout=600),
        K("C11.to_int_all", "ext", [h for h in _ALL_TO_INT if h not in _QUICK_TO_INT],
          "the remaining source x target combinations (7 sources x 8 targets in total)", tier="thorough", timeout=600),
        K("C11.first_and_empty", "ext", ["c11::c11_to_int_first_of_two", "c11::c11_to_int_empty"],
          "single-valued conversion returns the first of two items; Empty / no items => Err"),
        K("C11.multi", "ext",
          ["c11::c11_multi_int_u16_u8_n0", "c11::c11_multi_int_u16_u8_n1", "c11::c11_multi_float64_i32_n2",
           "c11::c11_multi_float32_u16_n2", "c11::c11_multi_int_u8_i32_n0", "c11::c11_multi_int_i16_i32_n0",
           "c11::c11_multi_int_u32_i32_n0", "c11::c11_multi_int_i32_i32_n0", "c11::c11_multi_int_u64_u64_n0",
           "c11::c11_multi_int_i64_i64_n0"],
          "to_multi_int / to_multi_float32 / to_multi_float64: exactly one result per stored value, in order; no items => empty list",
          fns=[(_PV, "to_multi_int", r"impl\s+PrimitiveValue"), (_PV, "to_multi_float32", r"impl\s+PrimitiveValue"),
               (_PV, "to_multi_float64", r"impl\s+PrimitiveValue")],
          complete=False, bound="0, 1 or 2 items (concrete lengths), contents symbolic; to_multi_int with >= 2 items exceeds the CBMC budget"),
        K("C11.multi_int_n1", "ext", _QUICK_MULTI_N1,
          "to_multi_int::<T>() on a one-item value of every binary integer variant, any stored number, to its own type and to the widest type of "
          "the opposite signedness: Ok([v]) <=> representable, v exact; Err otherwise (never wrapped)",
          complete=False, bound="1 item (concrete length), contents symbolic", timeout=600),
        K("C11.multi_int_n1_all", "ext", [h for h in _ALL_MULTI_N1 if h not in _QUICK_MULTI_N1],
          "the remaining source x target combinations (7 x 8 in total)", tier="thorough",
          complete=False, bound="1 item (concrete length), contents symbolic", timeout=600),
        N("C11.text", _WR2 % "c11_text",
          "the textual clauses, on the compiled code (str parsing / String handling are outside both verifiers): to_int / to_multi_int / "
          "to_float32 / to_float64 / to_multi_float32 / to_multi_float64 on Str and Strs values parse after trimming any mix of spaces and NULs "
          "at both ends, single-valued conversions take the first string, multi-valued ones give one result per string in order, a string "
          "that is not a number or is out of range makes the conversion fail (nothing skipped or wrapped); extend_str on Empty / Str / Strs / "
          "non-textual values; numbers appended as text to Str / Strs by the six extend_* functions; truncate on Str / Strs / Date / Time / "
          "DateTime",
          bound="7399 checks over 8 integers x 36 paddings x 4 value shapes, 7 non-numbers, decimal texts, and the listed edits (native "
                "enumeration of the compiled code; not a deductive result)",
          fns=[(_PV, "extend_str", r"impl\s+PrimitiveValue")]),
        K("C11.extend", "ext",
          ["c11::c11_extend_u16_onto_u16", "c11::c11_extend_u16_onto_u8", "c11::c11_extend_u16_onto_empty"] +
          ["c11b::c11_ext_%s_on_%s" % (f, t) for f in _EXT for t in _EXT_TARGETS],
          "extend_u16 / extend_i16 / extend_i32 / extend_u32 / extend_f32 / extend_f64 on every numeric variant (U8 .. F64), on Empty and "
          "on Tags: Ok, the value keeps its type, the old items are untouched and exactly the given numbers are appended, cast to the "
          "value's type (the documented conversion); Empty takes the numbers' own type; Tags => Err and the value is unchanged",
          fns=[(_PV, "extend_" + f, r"impl\s+PrimitiveValue") for f in _EXT],
          complete=False, bound="1 stored item + 1 appended number (2 onto Empty), concrete lengths, contents symbolic; textual targets (Str/Strs: to_string) not included"),
        K("C11.truncate", "ext",
          ["c11::c11_truncate_u16_n3"] + ["c11b::c11_truncate_" + t for t in ["u8", "i16", "u32", "i32", "u64", "i64", "f32", "f64", "tags", "empty"]],
          "truncate(limit), any limit, on every numeric variant, Tags and Empty: keeps the first min(n, limit) items unchanged, keeps the type",
          fns=[(_PV, "truncate", r"impl\s+PrimitiveValue")],
          complete=False, bound="values of 3 items (Tags: 2), concrete length, contents and limit symbolic; Strs/Date/Time/DateTime variants not included"),
        K("C11.to_float", "ext",
          ["c11b::c11_float32_from_" + t for t in ["u8", "u16", "i16", "u32", "i32", "u64", "i64", "f32"]] +
          ["c11b::c11_float64_from_" + t for t in ["u8", "u16", "i16", "u32", "i32", "u64", "i64", "f32", "f64"]],
          "to_float32 / to_float64 on a two-item value of every binary numeric variant: Ok(first item converted); to_multi_float32 / "
          "to_multi_float64: exactly one result per item, in order (all NaNs identified)",
          fns=[(_PV, "to_float32", r"impl\s+PrimitiveValue"), (_PV, "to_float64", r"impl\s+PrimitiveValue")],
          complete=False, bound="2 items (concrete length), contents symbolic; F64 -> f32 narrowing and textual sources not included"),
    ],
    assumptions=["error values are forgotten, never dropped or formatted in the harness; Backtrace capture stubbed",
                 "num_traits::NumCast is compiled and checked (not trusted)"],
    uncovered=["textual numbers, extend_str and numbers appended to textual values: deductively uncovered (only the native unit C11.text)", "F64 -> f32 narrowing",
               "DataElement / Value wrappers in header.rs and value/mod.rs (thin delegations)"],
)

# ----------------------------------------------------------------------- C04
_SE = "parser/src/stateful/encode.rs"
_C04K = ["c04::" + n for n in
         ["c04_prim_u8_n0_le", "c04_prim_u8_n3_le", "c04_prim_u16_n2_le", "c04_prim_u16_n1_be", "c04_prim_i16_n1_il",
          "c04_prim_u32_n2_be", "c04_prim_i32_n1_le", "c04_prim_u64_n1_le", "c04_prim_i64_n1_be", "c04_prim_f32_n1_le",
          "c04_prim_f64_n1_be", "c04_prim_tags_n2_le", "c04_prim_empty"]]
PROPS["C04"] = dict(
    level="proof",
    units=[
        V("C04.stateful_encoder", "c04_stateful_encoder.vrs",
          "StatefulEncoder (printer): even_len; encode_element_header evens defined lengths and keeps undefined ones; item "
          "header/delimiters; write_raw_bytes; write_bytes = bytes + one NUL iff odd; encode_offset_table; "
          "encode_text_element and encode_primitive_element (binary arm): header length is even and equals the number of "
          "value bytes that follow, pad byte NUL (UI / binary) or space (DA/DT/TM, text); for ALL of them bytes_written "
          "advances by exactly the bytes appended to the sink",
          expected_verified=17, witness=dict(cmd=_WR % "c04_elements")),
        V("C04.dataset_writer", "c04_dataset_writer.vrs",
          "DataSetWriter::write (the token-level writer): a stack of the open sequences / items records the length EMITTED for each; "
          "ItemEnd / SequenceEnd pop the innermost one and emit its delimiter exactly when it was emitted with undefined length and is of "
          "the matching kind; under SetUndefined every data set sequence and item is emitted with undefined length while the fragments of "
          "encapsulated pixel data keep their explicit lengths; after a SequenceStart the writer is never 'inside pixel data' (defect S27: "
          "this postcondition fails on the text before the fix); element headers are only remembered; values are printed as they come",
          expected_verified=12, witness=dict(cmd=_WR % "c01_objects")),
        V("C04.collection_delimited", "c04_collection_delimited.vrs",
          "encode_collection_delimited (multi-valued date / time / date-time / string values): the count returned equals the "
          "bytes appended to the sink (elements + one backslash between consecutive values), for any number of values",
          expected_verified=2, witness=dict(cmd=_WR % "c04_elements")),
        N("C04.streams", _WR % "c01_objects",
          "data-set level, on the compiled code: five in-memory objects (flat with every kind of value incl. odd lengths, empty values, private "
          "attributes, non-ASCII text; sequences nested three deep incl. an empty sequence and an empty item; encapsulated pixel data with offset "
          "table and two fragments) written with write_dataset_with_ts in Implicit VR LE, Explicit VR LE, Explicit VR BE and Deflated Explicit "
          "VR LE: the written stream is walked by an independent recursive reader of the PS3.5 layout: every defined value length is even and its bytes follow, undefined-length sequences and items are closed by the matching delimiters, defined lengths end where they say, tags ascend, nothing is left over",
          bound="15 (object, transfer syntax) pairs (the deflated stream is only round-tripped) + 9 hand-encoded streams with defined-length sequences / items (two of them with a sequence FOLLOWING encapsulated pixel data), which must be reproduced byte for byte when the recorded lengths are kept and be structurally valid under the default strategy (native run of the compiled code; not a deductive result)",
          fns=[("object/src/mem.rs", "write_dataset_with_ts")]),
        N("C04.elements", _WR % "c04_elements",
          "element level, on the compiled code: StatefulEncoder::encode_primitive_element with the three real encoders over every "
          "VR-appropriate value shape of small size (single / multi-valued text incl. ISO_IR 100 non-ASCII, bytes, numbers of every width, "
          "tags, partial dates / times / date-times, numbers written under DS / IS, empty values), judged by an independent reader of the "
          "element layout: declared length even and equal to the value bytes that follow, value bytes as expected plus at most one padding "
          "byte (NUL for UI / binary, space for text / DA / DT / TM), bytes_written() == bytes handed to the sink — covers the arms the "
          "Verus unit does not (encode_texts_element, encode_element_as_text, the text codec)",
          bound="2295 elements (incl. text given under the binary VRs UN / OB / OW / OD / OF / OL / OV, padded with NUL): 3 encoders x (17 text VRs x 31 shapes, 7 VRs x 10 non-ASCII shapes, bytes 0-5, 8 number types x 0-3 items, "
                "tags 0-2, 12 date / 20 time / 7 date-time values, DS / IS as text); native enumeration of the compiled code, not a deductive result",
          fns=[(_SE, "encode_primitive_element", None), (_SE, "encode_texts_element", None), (_SE, "encode_element_as_text", None)]),
        K("C04.byte_len", "ext", _C04K,
          "BasicEncode::encode_primitive (three real encoders): count returned == bytes written == items x item size; "
          "PrimitiveValue::calculate_byte_len agrees (up to even rounding) — discharges the assumed link of the Verus unit for small values",
          fns=[("encoding/src/encode/mod.rs", "encode_primitive", r"pub\s+trait\s+BasicEncode"),
               ("core/src/value/primitive.rs", "calculate_byte_len", r"impl\s+PrimitiveValue")],
          complete=False, bound="binary variants with 0-3 items (concrete lengths), contents symbolic; text/date/time variants not included",
          timeout=300),
        K("C04.offset_table", "ext", ["c04::c04_bot_n0_le", "c04::c04_bot_n2_le", "c04::c04_bot_n3_be", "c04::c04_bot_n2_il"],
          "encode_offset_table: 4 bytes per entry, count returned == bytes written",
          complete=False, bound="0-3 entries (concrete), values symbolic", timeout=300),
    ],
    assumptions=[
        "EncodeTo is represented by its contract: header/item sizes as proved in C03; encode_primitive/encode_offset_table counts as checked (bounded) by C04.byte_len/C04.offset_table",
        "axiom_byte_len: even(calculate_byte_len(v)) == even(|encode_primitive(v)|) — ASSUMED in the Verus unit, checked only for small binary values",
        "text codec abstract: convert_text_untrailed returns some byte string shorter than 4 GiB",
        "encode_texts_element and encode_element_as_text (iterator / format! code) are NOT verified",
        "precondition room(n): bytes_written + n fits u64; value byte length < 2^32-2",
        "C04.dataset_writer: DataSetWriter::write_impl (prints one token through the stateful encoder, whose functions are under contract in "
        "C04.stateful_encoder) is an abstract callee appending the token to a ghost log; the balance of a whole token stream is the induction over "
        "calls of the per-call contract and is not machine-composed; the derived == on SeqTokenType is written as a match",
    ],
    uncovered=["validity of whole streams as judged by an independent parser: only the native unit C04.streams",
               "the token streams produced by IntoTokens (object -> tokens): only the native units",
               "file writing (object/src/lib.rs): only the native units C04.streams / C09.*",
               "encode_date/encode_time/encode_datetime/write!(str) element encoders: their returned counts are assumed "
               "(Kani harnesses over them exceed 600 s in format machinery)"],
)

# ----------------------------------------------------------------------- C01
_C01 = ["c01::c01_%s_%s" % (t, e) for t in ["us", "ss", "ul", "sl", "uv", "sv", "fl", "fd"] for e in ["le", "be"]]
PROPS["C01"] = dict(
    level="proof",
    units=[
        K("C01.scalar_codecs", "ext", _C01,
          "LittleEndian/BigEndian BasicEncoder::encode_{us,ss,ul,sl,uv,sv,fl,fd} followed by the matching BasicDecoder::decode_* "
          "is the identity for every value (floats by bits), writes and consumes exactly 2/4/8 bytes, byte order per endianness",
          fns=[("encoding/src/encode/basic.rs", "encode_us", r"impl\s+BasicEncode\s+for\s+LittleEndianBasicEncoder"),
               ("encoding/src/encode/basic.rs", "encode_us", r"impl\s+BasicEncode\s+for\s+BigEndianBasicEncoder"),
               ("encoding/src/decode/basic.rs", "decode_us", r"impl\s+BasicDecode\s+for\s+LittleEndianBasicDecoder"),
               ("encoding/src/decode/basic.rs", "decode_us", r"impl\s+BasicDecode\s+for\s+BigEndianBasicDecoder")]),
        K("C01.header_roundtrip", "ext", ["c03::c03_roundtrip_explicit_le", "c03::c03_roundtrip_explicit_be"],
          "element header write-then-read is the identity in the explicit codecs (shared with C03; implicit: C03.dec_header against the dictionary contract)"),
        K("C01.value_roundtrip", "ext",
          ["c01::c01_value_" + n for n in ["u16_le", "u16_be", "i32_be", "u64_le", "i64_be", "f32_be", "f64_le", "f64_be"]],
          "value level: encode_primitive of a two-item binary value (real explicit LE/BE encoders) followed by the matching "
          "decode_*_into gives the same items in order and consumes exactly the bytes written",
          complete=False, bound="2 items (concrete length), contents symbolic; 8 type x endianness combinations", timeout=300),
        K("C01.multi_value_decoders", "ext", ["c01::c01_us_into_be_n3", "c01::c01_ul_into_le_n2"],
          "decode_us_into / decode_ul_into fill every slot from consecutive values in order",
          complete=False, bound="3 resp. 2 values (concrete lengths), bytes symbolic"),
        N("C01.objects", _WR % "c01_objects",
          "data-set level, on the compiled code: five in-memory objects (flat with every kind of value incl. odd lengths, empty values, private "
          "attributes, non-ASCII text; sequences nested three deep incl. an empty sequence and an empty item; encapsulated pixel data with offset "
          "table and two fragments) written with write_dataset_with_ts in Implicit VR LE, Explicit VR LE, Explicit VR BE and Deflated Explicit "
          "VR LE: the stream read back in the same transfer syntax is equal to the written object up to the documented normalisations, and writing it again gives the same bytes",
          bound="20 (object, transfer syntax) pairs (each also written with write_dataset_with_ts_options / _cs_options and read back) + 9 hand-encoded streams with defined-length sequences / items (two of them with a sequence FOLLOWING encapsulated pixel data) re-written with the recorded lengths kept and with the default strategy (native run of the compiled code; not a deductive result)",
          fns=[("object/src/mem.rs", "write_dataset_with_ts"), ("object/src/mem.rs", "read_dataset_with_ts")]),
        N("C01.elements", _WR % "c01_elements",
          "element level, on the compiled code (Kani aborts on StatefulDecoder::read_value): an element written by the real "
          "StatefulEncoder::encode_primitive_element and read back by the real StatefulDecoder (decode_header + read_value / "
          "read_value_preserved) in Explicit VR LE, Explicit VR BE and (standard attributes of the matching VR) Implicit VR LE gives the same "
          "tag, VR and an equal value — numbers of every width and sign / bit pattern (0-3 items, NaN payloads), bytes, tags with group != "
          "element, partial dates / times / date-times (1-2 items), single and multi-valued ASCII text (a backslash inside LT / ST / UT / UR stays "
          "part of ONE value under both reading strategies; empty middle values, leading spaces), numbers written under DS / IS — up "
          "to the documented normalisations, and the reader's position ends exactly at the end of the element",
          bound="1289 cases: 3 transfer syntaxes x the value shapes listed x 2 reading strategies (native enumeration of the compiled code; "
                "not a deductive result)",
          fns=[("parser/src/stateful/decode.rs", "read_value_tag"), ("parser/src/stateful/decode.rs", "read_value_da"),
               ("parser/src/stateful/encode.rs", "encode_primitive_element")]),
    ],
    assumptions=["only the value-codec and header layer of the property is decided; element-level composition relies on the contracts of C04 (writer) and C07 (reader), which are not machine-composed here"],
    uncovered=["whole data sets: token streams, nested sequences, encapsulated pixel data, deflate (DataSetWriter/DataSetReader, InMemDicomObject)",
               "text values in other character sets (C10)", "element-level write-then-read as a deductive statement (only the native unit C01.elements covers it)"],
)

# ----------------------------------------------------------------------- C12
_PARTIAL = "core/src/value/partial.rs"
PROPS["C12"] = dict(
    level="proof",
    units=[
        K("C12.constructors", "ext", ["c12::c12_date_constructors", "c12::c12_time_constructors", "c12::c12_time_fraction_constructors"],
          "DicomDate::{from_y,from_ym,from_ymd}, DicomTime::{from_h,from_hm,from_hms,from_hms_milli,from_hms_micro}: Ok <=> every "
          "component is in its range (year <= 9999, month 1-12, day 1-31, hour < 24, minute < 60, second <= 60, fraction within its "
          "precision), and the components are stored — for all inputs",
          fns=[(_PARTIAL, "check_component"), (_PARTIAL, "from_ymd", r"impl\s+DicomDate"), (_PARTIAL, "from_hms", r"impl\s+DicomTime"),
               (_PARTIAL, "from_hms_milli", r"impl\s+DicomTime"), (_PARTIAL, "from_hms_micro", r"impl\s+DicomTime")]),
        V("C12.parse_partial", "c12_parse_partial.vrs",
          "parse_date_partial / parse_time_partial on ANY bytes: no panic (slice bounds, accumulator widths), rest is a suffix; the "
          "text YYYY / YYYYMM / YYYYMMDD / HH / HHMM / HHMMSS / HHMMSS.F{1..6} of every valid value parses back to exactly that value "
          "with that precision, consuming the whole text",
          expected_verified=11, witness=dict(cmd=_WR % "c12_exhaustive")),
        V("C12.date_range", "c12_date_range.vrs",
          "<DicomDate as AsRange>::earliest / latest for every valid partial date: first / last day of the year or month (Gregorian month "
          "lengths and leap rule written in the contract), or the day itself; Err exactly when the day does not exist in that month",
          expected_verified=5, witness=dict(cmd=_WR % "c12_exhaustive")),
        V("C12.time_range", "c12_time_range.vrs",
          "<DicomTime as AsRange>::earliest / latest for every valid partial time incl. leap seconds (second 60) and fractions of 1-6 "
          "digits: both exist; in microseconds since midnight earliest = missing components 0, latest = missing minute/second 59 and "
          "missing fraction digits 9 (so earliest <= latest and every consistent precise time lies between them)",
          expected_verified=15, witness=dict(cmd=_WR % "c12_exhaustive")),
        N("C12.native", _WR % "c12_exhaustive",
          "on the compiled code (incl. the real to_encoded / format!, read_number and chrono): every valid partial date (years 1-9999, all "
          "months, all days) and every valid time without fraction (second 0-60), plus fractions of 1-6 digits at boundary values: the "
          "text written by to_encoded has the prescribed length and parses back to an equal value consuming all bytes; earliest / latest "
          "are the first / last instant consistent with the components (independent calendar and microsecond arithmetic); out-of-range "
          "components are rejected by the constructors; date-time values (4 dates x 7 times x 7 time-zone offsets incl. negative and "
          "half-hour ones): text = date text + time text + offset, parses back equal, earliest / latest = bounds of the parts in the value's "
          "own offset, a time after an imprecise date is rejected; range texts A-B, A-, -B for dates, times and date-times = earliest of A "
          ".. latest of B",
          bound="4 199 505 values: exhaustive for dates and fraction-less times, boundary samples for fractions, date-times and ranges (native enumeration of the "
                "compiled code; not a deductive result)",
          fns=[("core/src/value/partial.rs", "to_encoded", r"impl\s+DicomDate\s*\{"), ("core/src/value/partial.rs", "to_encoded", r"impl\s+DicomTime\s*\{")]),
        K("C12.parse_kani_crosscheck", "ext", ["c12::c12_parse_date_y", "c12::c12_parse_time_h"],
          "cross-check on the compiled code, including the real read_number: YYYY and HH texts (all digit strings)",
          timeout=600, tier="thorough"),
    ],
    assumptions=[
        "read_number is an abstract callee in the Verus unit (decimal value of 1..=9 ASCII digits); its real body is exercised only by the Kani cross-check for 2- and 4-digit texts",
        "the constructor contracts used by the Verus unit are those proved by C12.constructors (from_hmsf, pub(crate), is assumed: valid components and fraction < 10^precision => Ok with those fields)",
        "buf.iter().position(..), usize::min, u8::try_from(n).unwrap() replaced by shims with the same meaning",
        "chrono: NaiveDate::from_ymd_opt is Some exactly for existing Gregorian dates; the number of days between the first days of two consecutive months is the length of the month (ASSUMED)",
        "AsRange trait-impl methods of DicomDate / DicomTime verified as inherent methods",
        "chrono: NaiveTime::from_hms_micro_opt is Some iff hour<24, min<60, sec<60 and micro<10^6, or sec==59 and micro<2*10^6 (leap second representation; ASSUMED)",
    ],
    uncovered=["to_encoded (format!) is outside both verifiers (Kani exceeds its budget in the fmt machinery): covered only by the native unit C12.native",
               "date-time values, time-zone offsets, AsRange for DicomDateTime and range texts: deductively uncovered (chrono arithmetic; only the native unit C12.native)"],
)

# ----------------------------------------------------------------------- C14
PROPS["C14"] = dict(
    level="proof",
    units=[
        K("C14.tag_from_str", "ext", ["c14::c14_tag_from_str_len8", "c14::c14_tag_from_str_len11"],
          "Tag::from_str on EVERY valid UTF-8 string of 8 and 11 bytes (all byte values symbolic): Ok(tag) <=> the string is "
          "`ggggeeee` / `(gggg,eeee)` with hex digits in any letter case, and then tag is the one spelled; never panics",
          fns=[("core/src/header.rs", "from_str", r"impl\s+FromStr\s+for\s+Tag"), ("core/src/header.rs", "parse_tag_part")],
          timeout=900),
        N("C14.text", _WR % "c14_text",
          "printing and selectors, on the compiled code (fmt machinery and string splitting are outside both verifiers): every tag of 65536 "
          "groups x 70 elements prints as `(GGGG,EEEE)` and the printed form — and the lower-case comma / compact forms — parse back to it; "
          "attribute selectors of 1-4 steps (tags incl. groups below 0x1000 and private ones; item indices 0, 1, 9, 10, 255, 4294967295) "
          "print as the steps joined by '.' and parse back (parse_selector) equal; dictionary keywords inside selectors resolve to the "
          "keyword's tag, also mixed with tags; malformed selectors (index on the last step, missing bracket, empty step, unknown or "
          "wrong-case keyword, non-numeric / negative / too large index) are rejected",
          bound="9 229 188 checks (native enumeration of the compiled code; not a deductive result)",
          fns=[("core/src/dictionary/data_element.rs", "parse_selector")]),
        K("C14.tag_from_str_more", "ext",
          ["c14::c14_tag_from_str_len9", "c14::c14_tag_from_str_len0", "c14::c14_tag_from_str_len7", "c14::c14_tag_from_str_len10",
           "c14::c14_tag_from_str_len12"],
          "the `gggg,eeee` form (9 bytes, all strings) and rejection of strings of 0, 7, 10 and 12 bytes", tier="thorough", timeout=900),
    ],
    assumptions=["strings of lengths other than 0, 7-12 are rejected by the first statement of from_str (`match s.len()`): argued from the code, not proved",
                 "core::str::from_utf8 is compiled and checked by Kani (used to enumerate exactly the valid UTF-8 strings)"],
    uncovered=["Display for Tag, the AttributeSelector text syntax and parse_selector: deductively uncovered (only the native unit C14.text)",
               "dictionary keyword resolution in selectors (HashMap)"],
)

# ----------------------------------------------------------------------- C16
_TSM = "encoding/src/transfer_syntax/mod.rs"
PROPS["C16"] = dict(
    level="proof",
    units=[
        K("C16.capability_queries", "ext", ["c16::c16_capability_queries"],
          "TransferSyntax<D,R,W> built from any (byte order, VR mode, codec shape): is_fully_supported, can_decode_all, "
          "can_decode_dataset, is_codec_free, is_unsupported, is_encapsulated_pixel_data, is_unsupported_pixel_encapsulation, "
          "pixel_data_reader/writer presence equal the predicates of the statement over the codec shape (7 shapes x 4 modes)",
          fns=[(_TSM, "is_fully_supported"), (_TSM, "can_decode_all"), (_TSM, "can_decode_dataset"), (_TSM, "is_unsupported"),
               (_TSM, "is_unsupported_pixel_encapsulation"), (_TSM, "is_encapsulated_pixel_data"), (_TSM, "is_codec_free")]),
        N("C16.registry",
          "cp /repo/Cargo.lock /verif/witness/Cargo.lock && CARGO_TARGET_DIR=/verif/build/witness cargo run --offline -q --release "
          "--manifest-path /verif/witness/Cargo.toml --bin c16_registry 2>&1 | grep -E '^(WITNESS|EXHAUSTIVE|SKIPPED|error)' | tail -220",
          "every registered transfer syntax (registry compiled with features native+deflate): UID lookup with and without trailing NULs/spaces "
          "returns it, UIDs unique, only Implicit VR LE is implicit and only Explicit VR BE is big endian (observed on an encoded header), "
          "decodable data sets have decoder and encoder, capability queries agree with the codec offered; decoder/encoder presence for the "
          "four (byte order, VR mode) pairs",
          bound="exhaustive over the 46 registered transfer syntaxes x 6 UID suffixes (finite registry; evaluation of compiled code, not a deductive proof)",
          fns=[("transfer-syntax-registry/src/lib.rs", "get", r"impl\s+TransferSyntaxRegistryImpl"), (_TSM, "decoder_for"), (_TSM, "encoder_for")]),
    ],
    assumptions=["adapter types are unit types in the Kani unit: the queries inspect only the shape of the codec",
                 "the registry content depends on cargo features; the native unit uses native+deflate"],
    uncovered=["transfer syntaxes contributed through the inventory registry at link time", "other feature combinations of the registry crate"],
)

# ----------------------------------------------------------------------- C20
_RLE = "transfer-syntax-registry/src/adapters/rle_lossless.rs"
PROPS["C20"] = dict(
    level="exploration", claimed=False,
    units=[
        N("C20.rle",
          "cp /repo/Cargo.lock /verif/witness/Cargo.lock && CARGO_TARGET_DIR=/verif/build/witness cargo run --offline -q --release "
          "--manifest-path /verif/witness/Cargo.toml --bin c20_rle 2>&1 | grep -E '^(WITNESS|EXHAUSTIVE|SKIPPED|error)' | tail -220",
          "RleLosslessAdapter::decode and decode_frame (real adapter, reached through entries::RLE_LOSSLESS.codec()) on images encoded by a "
          "reference PS3.5 Annex G encoder: output == little-endian pixel-interleaved samples, whole == concatenation of the frames",
          bound="8/16 bits allocated x 1/3 samples per pixel x 1-3 pixels x 1-2 frames x 4 literal/replicate splits (incl. -128 no-ops) x 3 "
                "contents (every byte unique, all equal, alternating): 288 images — native enumeration, NOT a deductive result",
          fns=[(_RLE, "decode", r"impl\s+PixelDataReader\s+for\s+RleLosslessAdapter"),
               (_RLE, "decode_frame", r"impl\s+PixelDataReader\s+for\s+RleLosslessAdapter"), (_RLE, "read_rle_header"),
               (_RLE, "new", r"impl\s+PackBitsReader")]),
    ],
    assumptions=["the contract technique does not reach this adapter: Kani exceeded 900 s on a 2-pixel 8-bit image (dyn PixelDataObject, io::Cursor, "
                 "Read::take, read_to_end), and the text is outside Verus' subset (step_by/enumerate adapters, dyn objects); the unit is a "
                 "labelled bounded stand-in by native enumeration",
                 "the reference encoder in the unit (most significant byte plane first, PackBits per G.3.1) is the oracle"],
    uncovered=["images larger than the bound", "malformed fragments (C05)"],
)

# ----------------------------------------------------------------------- C09
PROPS["C09"] = dict(
    level="proof",
    units=[
        V("C09.group_length", "c09_group_length.vrs",
          "FileMetaTable::calculate_information_group_length == sum over the elements of PS3.10 Table 7.1-1 present in the table of "
          "(Explicit VR LE header size + even-padded value length): OB version 12+2, four UIs 8+n, optional SH/AE/AE/AE/UI 8+n, "
          "optional private information OB 12+n; dicom_len == even(byte length); "
          "FileMetaTable::update_information_group_length (called by the builder, by ApplyOp::apply and by set_transfer_syntax) stores exactly "
          "that number in information_group_length and changes no other attribute of the table; <FileMetaTable as ApplyOp>::apply "
          "(the dispatcher of every attribute operation): whenever an operation is accepted, the recorded group length equals the bytes of the "
          "group as it is AFTER the operation, whatever the per-attribute helpers did to the attribute they were handed; set_transfer_syntax: the UID is stored and the "
          "recorded group length is that of the table AFTER the change",
          expected_verified=21),
        N("C09.written_length",
          "cp /repo/Cargo.lock /verif/witness/Cargo.lock && CARGO_TARGET_DIR=/verif/build/witness cargo run --offline -q --release "
          "--manifest-path /verif/witness/Cargo.toml --bin c09_written_length 2>&1 | grep -E '^(WITNESS|EXHAUSTIVE|SKIPPED|error)' | tail -220",
          "tables built by the real builder, written by the real FileMetaTable::write and read back by from_reader: recorded group length == "
          "bytes that follow the group length element == table.information_group_length, and the table read back is equal",
          bound="3402 tables: every presence combination of the optional attributes (incl. private information with and without a creator UID) with even- and odd-length values, private information also binary (bytes above 0x7F, NUL, empty, all 256 byte values) (native enumeration; survives "
                "restructurings of the computation that the extraction cannot follow; not a deductive result)",
          fns=[("object/src/meta.rs", "calculate_information_group_length"), ("object/src/meta.rs", "write", r"impl\s+FileMetaTable")]),
        N("C09.preamble", _WR % "c09_preamble",
          "preamble clause, on the compiled code: complete files (2 objects x 2 transfer syntaxes) written with write_all and read back from a "
          "byte source and by path, with the 128-byte preamble (zero or arbitrary content) and without it, with the preamble option Auto / Always "
          "/ Never where they apply: every way gives the same object, whose meta table is the one written and which writes back to the same "
          "bytes; truncated starts and a missing magic code are errors, never panics",
          bound="144 checks over 4 files, incl. sources delivering 1 / 2 / 100 / 131 / 133 bytes per read and files with empty media storage UIDs (native run of the compiled code, temporary files under /verif/build; not a deductive result)",
          fns=[("object/src/file.rs", "from_reader", r"impl<D,\s*T>\s+OpenFileOptions<D,\s*T>")]),
        N("C09.after_operations", _WR % "c09_after_operations",
          "'this still holds after any supported attribute operation': every attribute action kind (Remove, Empty, SetVr, Set, SetStr, "
          "SetIfMissing, SetStrIfMissing, Replace, ReplaceStr, Push*, Truncate) applied through ApplyOp::apply to each file meta attribute "
          "(and to unsupported tags), on tables with and without the optional attributes, alone and followed by a second operation: "
          "afterwards — accepted or refused — the recorded group length == bytes that follow the group length element, and the written "
          "group reads back equal",
          bound="1760 operation sequences: 4 base tables x 11 tags x 20 actions x {one, two} operations (native enumeration of the compiled code; "
                "not a deductive result)",
          fns=[("object/src/meta.rs", "apply", r"impl\s+FileMetaTable\b"), ("object/src/meta.rs", "update_information_group_length")]),
    ],
    assumptions=["string byte lengths are abstract (Verus has no str byte reasoning); strings <= 65535 bytes, private information < 2 GiB (preconditions)",
                 "apply: the types of dicom_core::ops (AttributeOp, AttributeAction, AttributeSelectorStep, Tag and the nine tag constants) are declared in the template with opaque payloads, not extracted; apply_required_string / apply_optional_string are abstract callees that may do anything to the attribute they are given and are ASSUMED to leave a text shorter than 64 KiB; set_transfer_syntax: the trimmed UID of the transfer syntax is an abstract String ASSUMED shorter than 64 KiB; `tags::X =>` match arms are rewritten to guards `t_ if tag_eq(t_, tags::X) =>` (declared rewrite)",
                 "header sizes 8 (UI, SH, AE) and 12 (OB) are those proved for the real Explicit VR LE encoder in C03",
                 "closure postconditions are ghost annotations inserted by a declared rewrite that carries the constant found in the code into the annotation"],
    uncovered=["that FileMetaTableBuilder::build calls update_information_group_length after its last change (the callee, apply() and set_transfer_syntax are under contract; that call site is only exercised by the native units); what apply_required_string / apply_optional_string do to the attribute (abstract callees; C09.after_operations); that FileMetaTable::write emits exactly these bytes "
               "(writer pipeline: DataSetWriter, not within reach)", "deductive treatment of reading the group back, of attribute operations and of preamble detection (only the native units cover them)"],
)

# ----------------------------------------------------------------------- C34
PROPS["C34"] = dict(
    level="proof",
    units=[
        K("C34.failing_writer", "ext",
          ["c34::c34_headers_explicit_le", "c34::c34_headers_explicit_be", "c34::c34_headers_implicit_le"],
          "the three real header encoders (element header, item header, item and sequence delimiters) over a writer that stops "
          "accepting bytes at ANY offset: the call returns Err (never success with incomplete output); on Ok the reported size equals "
          "the bytes accepted",
          fns=_enc_fns("encode_element_header"), timeout=600),
        K("C34.failing_writer_values", "ext", ["c34::c34_primitive_u16_n2", "c34::c34_offset_table_n2"],
          "encode_primitive (two U16 items) and encode_offset_table (two entries) over a writer failing at any offset",
          complete=False, bound="2 items / 2 entries (concrete lengths), contents and failure offset symbolic", timeout=600),
        V("C34.stateful_encoder", "c04_stateful_encoder.vrs",
          "every StatefulEncoder method (headers, items, delimiters, write_bytes, write_raw_bytes, offset table, text and binary "
          "elements): Ok is returned only if the sink reported no failure during the call (ghost failure counter on the Write shim; "
          "EncodeTo represented by the contract proved by C34.failing_writer)",
          expected_verified=17),
        V("C34.stateful_decoder", "c07_stateful_decoder.vrs",
          "every StatefulDecoder reader: Ok is returned only if the source reported no failure during the call (ghost failure "
          "counter on the Read shim), and a source that ends early is an error (read_to / skip_bytes)",
          expected_verified=49),
        V("C34.pdata_writer", "c26_pdata_writer.vrs",
          "PDataWriter::write / dispatch_pdu / finish_impl: a transport failure makes the call return Err", expected_verified=11),
        N("C34.io_failures", _WR2 % "c34_io_failures",
          "whole data sets and files, on the compiled code: a small object (text, numbers, odd-length bytes, nested sequence, native or "
          "encapsulated pixel data) written as a data set in Implicit VR LE / Explicit VR LE / Explicit VR BE / Deflated Explicit VR LE and as a complete file (also a deflated one) to a "
          "sink that fails, or accepts zero bytes, at byte offset k (from then on, or once only) — for EVERY k up to the length of the output the operation "
          "returns an error (never Ok, never a panic), and a sink accepting one byte per call receives the identical complete output; the "
          "same streams read back from a source that reports an I/O error (kinds Other, ConnectionReset, TimedOut) at offset k, for every k: an "
          "error, never a partial object; from a source that ENDS at offset k (no more bytes, or an error of kind UnexpectedEof): an error at every "
          "k except where a top-level element or an item header of top-level encapsulated pixel data would start (independent structural walk "
          "of the written stream; the two places where read.rs documents that the end of the source is taken for the end of the data set); a stream "
          "of three PDUs received through read_pdu_from_wire from a transport failing at offset k (every k, three segment sizes): the PDUs "
          "completely before the failure are received, then an error; PDUs of 8 types sent with write_pdu to a sink failing at offset k (every k, "
          "every failure mode): an error",
          bound="49 958 (operation, failure mode, offset) cases over 2 objects x (4 data set syntaxes, also through a BufWriter given by value, + file) + a deflated file + 8 PDUs (native "
                "enumeration of the compiled code; not a deductive result)",
          fns=[("object/src/mem.rs", "write_dataset_with_ts"), ("object/src/mem.rs", "read_dataset_with_ts")]),
    ],
    assumptions=["a failing writer is modelled as one that accepts zero bytes from some offset on (std write_all turns that into an error); "
                 "io::Error values produced by the writer itself are outside the Kani harnesses (bit-packed representation is too costly)",
                 "Drop for PDataWriter discards the result of finish_impl by design; the public finish() propagates it"],
    uncovered=["whole-file / data-set writers and readers deductively (FileDicomObject::write_*, DataSetWriter, DataSetReader: only the native "
               "unit C34.io_failures covers them, for two small objects)",
               "the deflate data set adapter (Box<dyn Write>, flate2): only the native unit C34.io_failures, which found defect S23 there",
               "PDU sending and receiving inside live associations (sockets): only write_pdu / read_pdu_from_wire on failing transports in the native unit"],
)

# ----------------------------------------------------------------------- C05
_C05 = ["c05::c05_" + n for n in ["explicit_le_n5", "explicit_le_n7", "explicit_le_n8", "explicit_le_n11", "explicit_be_n5", "explicit_be_n8",
                                  "explicit_be_n11", "implicit_le_n7", "adaptive_le_n5", "adaptive_le_n7", "adaptive_le_n11"]]
PROPS["C05"] = dict(
    level="proof",
    units=[
        K("C05.headers_short_input", "ext", _C05,
          "decode_header and decode_item_header of the explicit LE/BE, implicit LE and adaptive decoders on EVERY input of 5, 7, 8 and 11 "
          "bytes: a value or an error, never a panic, never more bytes claimed than available (12-byte inputs: C03.dec_header / C08)",
          timeout=600),
        K("C05.tag_text", "ext", ["c14::c14_tag_from_str_len8", "c14::c14_tag_from_str_len11"],
          "Tag::from_str on every valid UTF-8 string of 8 and 11 bytes never panics (shared with C14)", timeout=900),
        V("C05.date_time_text", "c12_parse_partial.vrs",
          "parse_date_partial / parse_time_partial on ANY byte string: all slice indices in bounds, no accumulator overflow (shared with C12)",
          expected_verified=11),
        V("C05.read_pdu_head", "c25_read_pdu_head.vrs",
          "read_pdu framing head on ANY buffer: bytes::Buf accessors never called beyond the bytes available (shared with C25)",
          expected_verified=6),
        V("C05.read_pdu_variable", "c25_read_pdu_variable.vrs",
          "read_pdu_variable framing head on ANY buffer: bytes::Buf accessors never called beyond the bytes available (shared with C25)",
          expected_verified=1),
        V("C05.value_readers", "c07_stateful_decoder.vrs",
          "StatefulDecoder value readers: no arithmetic overflow / out-of-range cast / out-of-range slice for any declared length (shared with C07)",
          expected_verified=49, witness=dict(cmd=_W % "c07_positions")),
        N("C05.hostile", _WR2 % "c05_hostile -- quick",
          "on the compiled code, hostile inputs through the reading entry points the verifiers cannot process: every string of up to 5 "
          "characters over a 9-character alphabet (digits, separators, a multi-byte character) and single-character mutations of valid "
          "texts through parse_date_partial / parse_time_partial / parse_datetime_partial / Tag::from_str; every truncation and "
          "single-byte mutation of PDUs of every type through read_pdu (strict and not); every truncation and single-byte mutation (to 00 / 01) "
          "of a small object in three transfer syntaxes and as a complete file through InMemDicomObject::read_dataset_with_ts (drives "
          "the DataSetReader), the LazyDataSetReader and dicom_object::from_reader: a value or an error, never a panic",
          bound="145 854 inputs (native enumeration of the compiled code; not a deductive result; says nothing about inputs outside the family)",
          fns=[("object/src/mem.rs", "read_dataset_with_ts")]),
        N("C05.hostile2", _WR2 % "c05_hostile2",
          "on the compiled code, further entry points named by the statement: DICOM JSON deserialisation (every truncation and every "
          "single-character replacement of the JSON text of two objects, plus values of the wrong JSON type under 13 VR codes and malformed "
          "keys) through dicom_json::from_str; dumping (dicom_dump) and JSON serialisation of every object read from a single-byte mutation "
          "of a small data set; pixel data decoding (dicom_pixeldata decode_pixel_data / decode_pixel_data_frame) of native and RLE images "
          "whose image attributes are replaced one at a time by hostile values, whose pixel data is cut short or whose RLE fragments are "
          "malformed, and of garbage fragments under every encapsulated transfer syntax with a decoder in this build; the collector reader (file "
          "meta, data set up to the pixel data, offset table, fragments, rest) on every truncation and single-byte mutation of two files: a value "
          "or an error, never a panic",
          bound="18 946 inputs (native enumeration of the compiled code; not a deductive result; says nothing about inputs outside the family)",
          fns=[("transfer-syntax-registry/src/adapters/rle_lossless.rs", "read_rle_header"), ("object/src/collector.rs", "set_parser_with_ts")], timeout=1800),
        N("C05.hostile3", _WR2 % "c05_hostile3",
          "on the compiled code, the remaining entry points named by the statement: attribute selector texts (every string of up to 5 "
          "characters over a 13-character alphabet, every single-character replacement / insertion / deletion in 7 valid selectors) through "
          "DataDictionary::parse_selector; range texts (every string of up to 6 characters over { 0 1 9 - . + space }, mutations of 9 valid "
          "ranges, non-UTF-8 bytes) through parse_date_range / parse_time_range / parse_datetime_range; encapsulated pixel data produced by "
          "dicom-rs' own encoders (Encapsulated Uncompressed, JPEG Baseline, Deflated Image Frame Compression; 3 image shapes each) with every "
          "truncation and single-byte mutation (00 / 01 / 7F / FF) of every fragment, malformed fragment sequences, 17 hostile basic offset "
          "tables (empty, decreasing, equal, huge, off by one, too long) x 4 fragment layouts x 3 frame counts, hostile "
          "image attributes, and the JPEG streams under the decoder-only JPEG transfer syntaxes, through decode_pixel_data / "
          "decode_pixel_data_frame; every truncation and single-byte mutation of a Deflated Explicit VR Little Endian file through "
          "from_reader (a sample also through open_file) and of a file meta group through FileMetaTable::from_reader: a value or an error, "
          "never a panic",
          bound="574 918 inputs (native enumeration of the compiled code; not a deductive result; says nothing about inputs outside the family)",
          fns=[("transfer-syntax-registry/src/adapters/jpeg.rs", "decode_frame"), ("object/src/meta.rs", "from_reader"),
               ("core/src/value/range.rs", "parse_datetime_range")], timeout=2400),
        N("C05.depth", _WR2 % "c05_depth",
          "the 'never aborts' clause on the compiled code: sequences nested to depth 10 / 100 / 1000 / 5000 / 20 000 / 200 000 (properly delimited, "
          "or ending inside the innermost item) in the three uncompressed transfer syntaxes through the eager reader (then dumping and dropping the "
          "object), the token reader, the lazy reader, from_reader on a complete file, and the same shape as DICOM JSON through "
          "dicom_json::from_str; every case in a child process with a fixed 8 MiB stack, because a stack overflow aborts the process and cannot be "
          "caught: a value or an error, never a dead process. KNOWN FINDING S24 (listed in known_findings.txt, not repaired): the eager reader "
          "recurses once per nesting level and overflows the stack at depth 20 000",
          bound="150 (reader, transfer syntax, termination, depth) cases (native enumeration of the compiled code; not a deductive result)",
          fns=[("object/src/mem.rs", "build_sequence")], timeout=1800),
        N("C05.alloc", _WR2 % "c05_alloc",
          "the 'never aborts' clause under limited memory, on the compiled code: a few bytes that declare a length of 4 294 967 280 and then end "
          "(an element of each of 11 long-form value representations and a defined-length sequence, in the three uncompressed transfer syntaxes; a "
          "pixel data fragment; a basic offset table; a file meta element; PDUs and PDU items) through the eager reader, from_reader on a complete "
          "file, the lazy reader (reading the value), FileMetaTable::from_reader and read_pdu; every case in a child process limited to 1 GiB of "
          "address space (ulimit -v), because a failed allocation aborts the process and cannot be caught: a value or an error, never a dead "
          "process. KNOWN FINDING S25 (listed in known_findings.txt, not repaired): the stateful decoder allocates the declared length up front",
          bound="117 cases: 112 (reader, transfer syntax, element) cases + hostile image attributes under 5 encapsulated transfer syntaxes (native enumeration of the compiled code; not a deductive result); skipped where "
                "the address space of a child process cannot be limited",
          fns=[("parser/src/stateful/decode.rs", "read_value_ob")], timeout=1800),
        N("C05.hostile3_full", _WR2 % "c05_hostile3 -- full",
          "the family of C05.hostile3 widened: selector strings of up to 6 characters, every byte (not every third) of long fragments cut and "
          "mutated: a value or an error, never a panic",
          bound="about 5.4 million inputs (native enumeration of the compiled code; not a deductive result)", tier="thorough", timeout=5400),
        N("C05.hostile_full", _WR2 % "c05_hostile",
          "on the compiled code, hostile inputs through the reading entry points the verifiers cannot process: every string of up to 6 "
          "characters over a 9-character alphabet (digits, separators, a multi-byte character) and single-character mutations of valid "
          "texts through parse_date_partial / parse_time_partial / parse_datetime_partial / Tag::from_str; every truncation and "
          "single-byte mutation of PDUs of every type through read_pdu (strict and not); every truncation and single-byte mutation (to 00 / 01 / FF) "
          "of a small object in three transfer syntaxes and as a complete file through InMemDicomObject::read_dataset_with_ts (drives "
          "the DataSetReader), the LazyDataSetReader and dicom_object::from_reader: a value or an error, never a panic",
          bound="1 211 146 inputs (native enumeration of the compiled code; not a deductive result)", tier="thorough", timeout=3600),
    ],
    assumptions=["panic-freedom (index, slice, overflow, unwrap, unreachable!) is an automatic obligation of both engines in every unit of every property",
                 "inputs shorter than a tag (0-3 bytes) are not covered by the header unit (CBMC budget)"],
    uncovered=["file opening and byte-source reading, file meta group reading, eager / lazy data set readers: deductively uncovered (only the native "
               "units C05.hostile / C05.hostile2 / C05.hostile3 exercise them)",
               "DICOM JSON deserialisation, PDU body decoding, pixel data decoders, dump: deductively uncovered (only the native units)",
               "attribute selector and range text parsers: deductively uncovered (only the native unit C05.hostile3)", "hang-freedom (termination) in general"],
)

# ----------------------------------------------------------------------- C31
PROPS["C31"] = dict(
    level="exploration", claimed=False,
    units=[
        N("C31.command_length",
          "cp /repo/Cargo.lock /verif/witness/Cargo.lock && CARGO_TARGET_DIR=/verif/build/witness cargo run --offline -q --release "
          "--manifest-path /verif/witness/Cargo.toml --bin c31_command_length 2>&1 | grep -E '^(WITNESS|EXHAUSTIVE|SKIPPED|error)' | tail -220",
          "InMemDicomObject::command_from_element_iter on enumerated element lists, written with the real Implicit VR LE writer: the "
          "recorded (0000,0000) value equals the bytes of group 0000 that follow it in the written stream",
          bound="1377 element lists: up to 3 elements drawn (in both orders, duplicate tags included) from 16 candidates (UI/AE texts of "
                "length 0-17, US, AT, a stale group length, a non-command element) — native enumeration, NOT a deductive result",
          fns=[("object/src/mem.rs", "command_from_iter_with_dict")]),
        V("C31.even_len", "c31_even_len.vrs", "even_len (object crate copy) == next even number, for every defined length", expected_verified=1),
    ],
    assumptions=["the contract technique does not reach command_from_iter_with_dict (BTreeMap, iterator closures mutating captured state, dictionary-typed "
                 "elements: outside Verus' subset; the object crate cannot be processed by Kani within budget); the main unit is a labelled bounded stand-in",
                 "the oracle is the real Implicit VR LE writer of the same library (its element layout is proved in C03/C04)"],
    uncovered=["element lists beyond the bound", "sequences inside command sets"],
)

# ----------------------------------------------------------------------- C17 (auxiliary, not claimed)
PROPS["C17"] = dict(
    level="exploration", claimed=False,
    units=[
        N("C17.person_name",
          "cp /repo/Cargo.lock /verif/witness/Cargo.lock && CARGO_TARGET_DIR=/verif/build/witness cargo run --offline -q --release "
          "--manifest-path /verif/witness/Cargo.toml --bin c17_person_name 2>&1 | grep -E '^(WITNESS|EXHAUSTIVE|SKIPPED|error)' | tail -220",
          "PersonName built from up to five components over a 6-value alphabet: to_dicom_string then from_text gives the same components; "
          "trailing empty components omitted, leading ones kept",
          bound="7^5 = 16807 names — native enumeration, NOT a deductive result",
          fns=[("core/src/value/person_name.rs", "to_dicom_string"), ("core/src/value/person_name.rs", "from_text")]),
    ],
    assumptions=["String / str::split / Peekable iterators: outside Verus' subset and beyond the CBMC budget"],
    uncovered=[],
)

# ----------------------------------------------------------------------- C27
PROPS["C27"] = dict(
    level="proof",
    units=[
        V("C27.read_pdu_from_wire", "c27_read_pdu_from_wire.vrs",
          "read_pdu_from_wire (synchronous receiver): for ANY segmentation of the transport (each fill_buf returns an arbitrary non-empty "
          "prefix of what is left), the PDU returned is the first PDU of the logical stream read_buffer ++ remaining and exactly the rest of "
          "that stream is left for the next receive; the loop terminates (returns a PDU or an error) — by induction over the loop; "
          "ClientAssociation / ServerAssociation receive() (SyncAssociationSealed): the PDU returned is the first PDU of the logical stream "
          "(bytes the ASSOCIATION kept from earlier receives ++ what the transport still holds) and the association keeps exactly the rest — "
          "successive receives lose and duplicate nothing (a receive() that starts from a fresh buffer fails this postcondition)",
          expected_verified=9),
        V("C27.read_pdu_head", "c25_read_pdu_head.vrs",
          "the callee's framing: every strict prefix of header + declared content reads as incomplete (shared with C25)", expected_verified=6),
        N("C27.association",
          "cp /repo/Cargo.lock /verif/witness/Cargo.lock && CARGO_TARGET_DIR=/verif/build/witness cargo run --offline -q --release "
          "--manifest-path /verif/witness/Cargo.toml --bin c27_association 2>&1 | grep -E '^(WITNESS|EXHAUSTIVE|SKIPPED|error)' | tail -220",
          "association level, on the compiled code over a loopback TCP connection inside the process: a hand-written peer sends the handshake "
          "PDU (A-ASSOCIATE-AC to a requestor, A-ASSOCIATE-RQ to an acceptor) followed at once — in ONE write, and byte by byte — by a P-DATA-TF "
          "and an A-RELEASE-RQ: after establish, successive receive() calls (or receive_pdata() then receive()) return exactly those PDUs in "
          "order: nothing that arrived together with the handshake PDU, or behind a P-DATA message, is lost when the read buffer changes hands "
          "(skipped, not failed, where loopback TCP is unavailable)",
          bound="16 checks over 8 conversations, two of them with the asynchronous requestor (native run of the compiled code; not a deductive result)",
          fns=[("ul/src/association/mod.rs", "read_pdu_from_wire")], timeout=600),
        N("C27.segmentations",
          "cp /repo/Cargo.lock /verif/witness/Cargo.lock && CARGO_TARGET_DIR=/verif/build/witness cargo run --offline -q --release "
          "--manifest-path /verif/witness/Cargo.toml --bin c27_segmentations 2>&1 | grep -E '^(WITNESS|EXHAUSTIVE|SKIPPED|error)' | tail -220",
          "a fixed stream of three PDUs (A-RELEASE-RQ, P-DATA, A-ABORT) handed to the real read_pdu_from_wire in EVERY segmentation with at most "
          "three cut points: successive receives return exactly the three PDUs in order, then end of stream, nothing left over; the same "
          "segmentations through the asynchronous read_pdu_from_wire_async from a transport that answers Pending before every segment",
          bound="15 614 cases: 7807 segmentations of one 37-byte stream x (synchronous, asynchronous receiver) (native enumeration of the compiled "
                "code, incl. the real BufReader and read_pdu; not a deductive result)",
          fns=[("ul/src/association/mod.rs", "read_pdu_from_wire")]),
    ],
    assumptions=[
        "read_pdu is represented by the contract first_pdu (decoded PDU + size, None when incomplete); ASSUMED axiom: a complete PDU at the head of a byte "
        "string is unaffected by the bytes that follow it (PS3.8 length-delimited PDUs); the framing head of read_pdu is proved in C25, the per-type decoding is not",
        "`let mut reader = BufReader::new(reader)` is dropped in the verified text: a fresh BufReader that is completely consumed before being dropped neither "
        "loses nor reorders bytes (std, assumed); fill_buf returns an arbitrary prefix, non-empty unless the stream ended",
        "bytes::BytesMut advance/extend_from_slice and io::Cursor behave as documented",
        "`let msg = loop { .. break pdu }` rewritten to a loop storing the value (Verus has no break-with-value)",
    ],
    uncovered=["read_pdu_from_wire_async (textually the same loop over tokio's read_buf; no async support in either verifier)",
               "the asynchronous association objects' receive() wrappers (the synchronous ones are under contract over structs declared with only the fields receive() touches); the receive loops inside establish() (handshake), which hand their buffer over to the association", "PDataReader::read (same loop shape inside the P-DATA reader)"],
)
