//! Bounded native stand-in for C31: build command sets from enumerated elements with the real
//! `InMemDicomObject::command_from_element_iter`, write them in Implicit VR Little Endian with the real
//! writer, and compare the recorded Command Group Length with the number of bytes that follow
//! the (0000,0000) element in the written stream.
use dicom_core::value::PrimitiveValue;
use dicom_core::{DataElement, Tag, VR};
use dicom_object::mem::InMemElement;
use dicom_object::InMemDicomObject;
use dicom_transfer_syntax_registry::entries::IMPLICIT_VR_LITTLE_ENDIAN;

fn candidates() -> Vec<InMemElement> {
    let mut v: Vec<InMemElement> = Vec::new();
    for (i, text) in ["", "1", "1.2", "1.2.840.10008.1.1", "AB C"].iter().enumerate() {
        v.push(DataElement::new(Tag(0x0000, 0x0002), VR::UI, PrimitiveValue::from(*text)));
        v.push(DataElement::new(Tag(0x0000, 0x0600 + i as u16), VR::AE, PrimitiveValue::from(*text)));
    }
    v.push(DataElement::new(Tag(0x0000, 0x0100), VR::US, PrimitiveValue::from(0x0030u16)));
    v.push(DataElement::new(Tag(0x0000, 0x0110), VR::US, PrimitiveValue::from(7u16)));
    v.push(DataElement::new(Tag(0x0000, 0x0800), VR::US, PrimitiveValue::from(0x0101u16)));
    v.push(DataElement::new(Tag(0x0000, 0x0901), VR::AT, PrimitiveValue::Tags([Tag(8, 0x18)].as_ref().into())));
    v.push(DataElement::new(Tag(0x0000, 0x0000), VR::UL, PrimitiveValue::from(999u32))); // a stale group length given by the caller
    v.push(DataElement::new(Tag(0x0008, 0x0018), VR::UI, PrimitiveValue::from("1.2.3"))); // not a command element
    v
}

fn main() {
    let c = candidates();
    let ts = IMPLICIT_VR_LITTLE_ENDIAN.erased();
    let (mut cases, mut bad) = (0u64, 0u64);
    // all subsets of up to 3 candidate elements, in both orders (duplicate tags included)
    let n = c.len();
    let mut idx: Vec<Vec<usize>> = vec![vec![]];
    for a in 0..n { idx.push(vec![a]); for b in 0..n { if a != b { idx.push(vec![a, b]); for d in 0..n { if d != a && d != b && a < b && b < d { idx.push(vec![a, b, d]); idx.push(vec![d, b, a]); } } } } }
    for sel in idx {
        cases += 1;
        let elems: Vec<InMemElement> = sel.iter().map(|&i| c[i].clone()).collect();
        let obj = InMemDicomObject::command_from_element_iter(elems);
        let mut out = Vec::new();
        if let Err(e) = obj.write_dataset_with_ts(&mut out, &ts) {
            bad += 1;
            println!("WITNESS unit=C31.command_length elements={:?}: writing failed: {}", sel, e);
            continue;
        }
        // first element must be (0000,0000) UL 4
        let ok_head = out.len() >= 12 && out[0..8] == [0, 0, 0, 0, 4, 0, 0, 0];
        let recorded = if ok_head { u32::from_le_bytes([out[8], out[9], out[10], out[11]]) } else { u32::MAX };
        // bytes of group 0000 after the group length element
        let mut pos = 12usize;
        let mut group0 = 0usize;
        while pos + 8 <= out.len() {
            let g = u16::from_le_bytes([out[pos], out[pos + 1]]);
            let len = u32::from_le_bytes([out[pos + 4], out[pos + 5], out[pos + 6], out[pos + 7]]) as usize;
            if g == 0 { group0 += 8 + len; }
            pos += 8 + len;
        }
        if !ok_head || pos != out.len() || recorded as usize != group0 {
            bad += 1;
            if bad <= 6 {
                let tags: Vec<String> = sel.iter().map(|&i| format!("{}", c[i].header().tag)).collect();
                println!("WITNESS unit=C31.command_length elements={:?} recorded_group_length={} bytes_of_group_0000_after_it={} (stream {} bytes)", tags, recorded, group0, out.len());
            }
        }
    }
    println!("EXHAUSTIVE unit=C31.command_length cases={} mismatches={}", cases, bad);
}
