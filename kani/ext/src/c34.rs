//! C34 — I/O failures are always reported by the leaf encoders: if the underlying writer fails at
//! any byte offset (with an error, or by accepting zero bytes), the call returns an error; it never
//! reports success with incomplete output.
use crate::common::*;
use dicom_core::header::{DataElementHeader, Length};
use dicom_core::smallvec::smallvec;
use dicom_core::value::PrimitiveValue;
use dicom_core::Tag;
use dicom_encoding::encode::explicit_be::ExplicitVRBigEndianEncoder;
use dicom_encoding::encode::explicit_le::ExplicitVRLittleEndianEncoder;
use dicom_encoding::encode::implicit_le::ImplicitVRLittleEndianEncoder;
use dicom_encoding::encode::Encode;
use std::io::{self, Write};

/// A writer that accepts `budget` bytes (possibly in partial writes) and then fails,
/// either with an error or by accepting zero bytes.
pub struct FailingWriter {
    pub budget: usize,
    pub accepted: usize,
    pub zero_instead_of_error: bool,
    pub failed: bool,
    pub chunk: usize,
}

impl Write for FailingWriter {
    fn write(&mut self, buf: &[u8]) -> io::Result<usize> {
        if buf.is_empty() {
            return Ok(0);
        }
        let room = self.budget - self.accepted;
        if room == 0 {
            self.failed = true;
            // the failure is signalled by accepting zero bytes (`write_all` turns it into WriteZero);
            // constructing io::Error values here makes CBMC explore the bit-packed error representation
            return Ok(0);
        }
        let mut n = if buf.len() < room { buf.len() } else { room };
        if self.chunk > 0 && n > self.chunk {
            n = self.chunk; // partial writes
        }
        self.accepted += n;
        Ok(n)
    }
    fn flush(&mut self) -> io::Result<()> {
        Ok(())
    }
}

fn any_failing_writer(max_budget: usize) -> FailingWriter {
    let budget: usize = kani::any();
    kani::assume(budget <= max_budget);
    FailingWriter { budget, accepted: 0, zero_instead_of_error: true, failed: false, chunk: 0 }
}

macro_rules! header_failure_reported {
    ($name:ident, $enc:ty) => {
        #[kani::proof]
        #[kani::unwind(16)]
        #[kani::stub(std::backtrace::Backtrace::force_capture, no_bt)]
        pub fn $name() {
            let (vr, _, _) = any_vr();
            let de = DataElementHeader::new(Tag(kani::any(), kani::any()), vr, Length(kani::any()));
            let which: u8 = kani::any();
            kani::assume(which < 4);
            let mut w = any_failing_writer(13);
            let enc = <$enc>::default();
            let ok = match which {
                0 => match enc.encode_element_header(&mut w, de) { Ok(n) => { assert!(n == w.accepted, "C34: the size reported equals the bytes the writer accepted"); true } Err(e) => { core::mem::forget(e); false } },
                1 => match enc.encode_item_header(&mut w, kani::any()) { Ok(()) => true, Err(e) => { core::mem::forget(e); false } },
                2 => match enc.encode_item_delimiter(&mut w) { Ok(()) => true, Err(e) => { core::mem::forget(e); false } },
                _ => match enc.encode_sequence_delimiter(&mut w) { Ok(()) => true, Err(e) => { core::mem::forget(e); false } },
            };
            if w.failed {
                assert!(!ok, "C34: a writer failure is reported as an error, never as success with incomplete output");
                kani::cover!(w.accepted > 0, "failure after a partial write reachable");
            }
            kani::cover!(ok, "success reachable");
        }
    };
}
header_failure_reported!(c34_headers_explicit_le, ExplicitVRLittleEndianEncoder);
header_failure_reported!(c34_headers_explicit_be, ExplicitVRBigEndianEncoder);
header_failure_reported!(c34_headers_implicit_le, ImplicitVRLittleEndianEncoder);

/// value encoders: a failure while writing any of the items is reported
#[kani::proof]
#[kani::unwind(16)]
#[kani::stub(std::backtrace::Backtrace::force_capture, no_bt)]
pub fn c34_primitive_u16_n2() {
    let v = PrimitiveValue::U16(smallvec![kani::any(), kani::any()]);
    let mut w = any_failing_writer(5);
    match ExplicitVRLittleEndianEncoder::default().encode_primitive(&mut w, &v) {
        Ok(n) => {
            assert!(!w.failed, "C34: a writer failure is reported as an error");
            assert!(n == w.accepted && n == 4, "C34: success means every byte was accepted");
        }
        Err(e) => core::mem::forget(e),
    }
    core::mem::forget(v);
}

#[kani::proof]
#[kani::unwind(16)]
#[kani::stub(std::backtrace::Backtrace::force_capture, no_bt)]
pub fn c34_offset_table_n2() {
    let table: [u32; 2] = kani::any();
    let mut w = any_failing_writer(9);
    match ExplicitVRBigEndianEncoder::default().encode_offset_table(&mut w, &table) {
        Ok(n) => {
            assert!(!w.failed, "C34: a writer failure is reported as an error");
            assert!(n == w.accepted && n == 8, "C34: success means every byte was accepted");
        }
        Err(e) => core::mem::forget(e),
    }
}
