#!/usr/bin/env python3
"""Regenerates the '13.1 Units per property' table of DESIGN.md from tools/registry.py."""
import os, re, sys
HERE = os.path.dirname(os.path.abspath(__file__))
sys.path.insert(0, HERE)
import registry
out = []
for pid in sorted(registry.PROPS):
    P = registry.PROPS[pid]
    out.append(f"**{pid}** (level `{P['level']}`)\n")
    out.append("| unit | engine | strength | tier | what is decided |\n|---|---|---|---|---|")
    for u in P["units"]:
        eng = {"kani": "K", "verus": "V", "native": "N"}[u["engine"]]
        strength = "complete" if u.get("complete") else "BOUNDED: " + (u.get("bound") or "")
        out.append(f"| `{u['id']}` | {eng} | {strength} | {u.get('tier','quick')} | {u['desc']} |")
    if P.get("uncovered"):
        out.append("\nUncovered: " + "; ".join(P["uncovered"]) + ".")
    out.append("")
txt = "\n".join(out)
p = os.path.join(HERE, "..", "DESIGN.md")
s = open(p).read()
a = s.index("<!-- UNITS-BEGIN -->") + len("<!-- UNITS-BEGIN -->")
b = s.index("<!-- UNITS-END -->")
open(p, "w").write(s[:a] + "\n" + txt + "\n" + s[b:])
print("DESIGN.md units table regenerated")
