//! Exhaustive stand-in for C16 over the registry compiled with features native+deflate: for EVERY
//! registered transfer syntax — UID lookup (with trailing NULs/spaces) returns it, UIDs are unique,
//! only Implicit VR LE is implicit and only Explicit VR BE is big endian (observed on the header its
//! encoder writes), a decodable data set has both decoder and encoder, and the capability queries
//! agree with the codec shape. Plus the four (byte order, VR mode) combinations of a descriptor.
use dicom_core::header::{DataElementHeader, Length};
use dicom_core::{Tag, VR};
use dicom_encoding::transfer_syntax::{Codec, Endianness, TransferSyntax, TransferSyntaxIndex};
use dicom_transfer_syntax_registry::TransferSyntaxRegistry;
use std::collections::HashSet;

fn main() {
    let mut cases = 0u64;
    let mut bad = 0u64;
    let mut fail = |msg: String| { bad += 1; if bad <= 8 { println!("WITNESS unit=C16.registry {}", msg); } };
    let mut uids = HashSet::new();
    let all: Vec<&TransferSyntax> = TransferSyntaxRegistry.iter().collect();
    for ts in &all {
        let uid = ts.uid();
        cases += 1;
        if !uids.insert(uid) { fail(format!("uid {} registered twice", uid)); }
        for suffix in ["", "\0", " ", "\0\0", "  ", " \0"] {
            cases += 1;
            match TransferSyntaxRegistry.get(&format!("{}{}", uid, suffix)) {
                Some(t) if t.uid() == uid => {}
                other => fail(format!("lookup of {:?}+{:?} -> {:?}", uid, suffix, other.map(|t| t.uid()))),
            }
        }
        // implicit / big endian, as observed on an encoded header
        cases += 1;
        match (ts.encoder(), ts.decoder()) {
            (Some(enc), Some(_dec)) => {
                let mut out = Vec::new();
                let n = enc.encode_element_header(&mut out, DataElementHeader::new(Tag(0x0010, 0x0020), VR::LO, Length(4))).expect("header");
                let explicit = n == 8 && &out[4..6] == b"LO";
                let big = out[0] == 0x00 && out[1] == 0x10;
                if explicit == (uid == "1.2.840.10008.1.2") { fail(format!("{}: explicit={} (only Implicit VR Little Endian is implicit)", uid, explicit)); }
                if big != (uid == "1.2.840.10008.1.2.2") { fail(format!("{}: big_endian={} (only Explicit VR Big Endian is big endian)", uid, big)); }
                if (ts.endianness() == Endianness::Big) != big { fail(format!("{}: endianness() disagrees with the encoder", uid)); }
            }
            (e, d) => {
                if ts.can_decode_dataset() { fail(format!("{}: data sets decodable but encoder={} decoder={}", uid, e.is_some(), d.is_some())); }
            }
        }
        // capability queries vs the codec actually offered
        cases += 1;
        let (dataset_rw, pr, pw, enc) = match ts.codec() {
            Codec::None => (true, true, true, false),
            Codec::Dataset(None) => (false, false, false, false),
            Codec::Dataset(Some(_)) => (true, true, true, false),
            Codec::EncapsulatedPixelData(r, w) => (true, r.is_some(), w.is_some(), true),
        };
        if ts.can_decode_dataset() != dataset_rw || ts.can_decode_all() != (dataset_rw && pr) || ts.is_fully_supported() != (dataset_rw && pr && pw)
            || ts.is_encapsulated_pixel_data() != enc || ts.is_unsupported() != !dataset_rw || ts.is_unsupported_pixel_encapsulation() != (!pr && !pw)
            || ts.pixel_data_reader().is_some() != (enc && pr) || ts.pixel_data_writer().is_some() != (enc && pw) {
            fail(format!("{}: capability queries disagree with the codec offered", uid));
        }
    }
    // decoder / encoder exist exactly for the three defined (byte order, VR) pairs
    for (big, explicit) in [(false, false), (false, true), (true, true), (true, false)] {
        cases += 1;
        let ts: TransferSyntax = TransferSyntax::<dicom_encoding::NeverAdapter, dicom_encoding::adapters::NeverPixelAdapter, dicom_encoding::adapters::NeverPixelAdapter>::new(
            "1.2.3", "X", if big { Endianness::Big } else { Endianness::Little }, explicit, Codec::None).erased();
        let defined = !big || explicit;
        if ts.decoder().is_some() != defined || ts.encoder().is_some() != defined {
            fail(format!("descriptor big={} explicit={}: decoder={} encoder={}", big, explicit, ts.decoder().is_some(), ts.encoder().is_some()));
        }
    }
    if all.len() < 40 { fail(format!("registry has only {} entries", all.len())); }
    println!("EXHAUSTIVE unit=C16.registry cases={} registered={} mismatches={}", cases, all.len(), bad);
}
