#!/bin/sh
# Offline setup: warm the Kani and Verus caches so that the first check is not a cold build.
set -e
cd "$(dirname "$0")"
export CARGO_NET_OFFLINE=true
mkdir -p build/logs build/playback build/v
# Verus first-run warm-up
cat > build/v/_warm.rs <<'EOR'
use vstd::prelude::*;
verus! { proof fn warm() ensures 1 + 1 == 2int {} }
fn main() {}
EOR
(cd build/v && verus _warm.rs >/dev/null 2>&1 || true)
# Kani: compile the harness crates once (codegen only)
for d in kani/ext*; do
  [ -f "$d/Cargo.toml" ] || continue
  cp /repo/Cargo.lock "$d/Cargo.lock"
  (cd "$d" && CARGO_TARGET_DIR="$PWD/../../build/kani-$(basename $d)" cargo kani -Z stubbing -Z function-contracts --only-codegen >/dev/null 2>&1 || true)
done
# native stand-ins: build every witness program once (release and debug profiles are both used by the units)
cp /repo/Cargo.lock witness/Cargo.lock
(CARGO_TARGET_DIR="$PWD/build/witness" cargo build --offline -q --release --manifest-path witness/Cargo.toml >/dev/null 2>&1 || true)
(CARGO_TARGET_DIR="$PWD/build/witness" cargo build --offline -q --manifest-path witness/Cargo.toml >/dev/null 2>&1 || true)
echo "setup done"
