"""Prose for MANIFEST.json (levels, notes, not-applicable reasons)."""

HOOKS = dict(
    guard="kani",
    enable="cargo kani sets --cfg kani; hooks are `#[cfg(kani)] #[path = \"/verif/kani/in/<x>.rs\"] mod verif_harness;` "
           "lines (add-only). Verus units need no hook: function text is extracted from /repo on every run.",
    baseline_off_cmd="cd /repo && cargo test --workspace --no-fail-fast --offline",
    source_commits=["verif hook: cfg(kani) harness module for decode/adaptive_le.rs"],
    add_only=True,
)

ENGINES = [
    dict(name="K", path="/verif/kani", serves_properties=[], kind_free_text="Kani 0.68 / CBMC contract harnesses compiled against the real crates in /repo"),
    dict(name="V", path="/verif/contracts", serves_properties=[], kind_free_text="Verus on function text extracted mechanically from /repo on every run (tools/vextract.py)"),
]

NOTES = ("Contract-based deductive verification of the real code. `./check <ID>` exits 0/1/2 = holds / VIOLATION / "
         "INCONCLUSIVE (tool limit, lost anchor; never an alarm). Known findings: /verif/known_findings.txt. "
         "Design and per-property scope: /verif/DESIGN.md.")

CHECKS = {
    "C01": dict(
        technique="Kani/CBMC contract harnesses, loop-free over every scalar value and every header, for the basic codecs and header codecs",
        text="Complete proof of the value-codec layer only: each scalar codec and each header codec is a write-then-read identity for all "
             "inputs; the whole-data-set round trip (tokens, sequences, objects, deflate) is outside this technique's reach here.",
        note="Claimed for the scalar/header layer only (DESIGN.md C01). Whole-data-set round trip, text values and pixel data are uncovered.",
    ),
    "C03": dict(
        technique="Kani/CBMC contract harnesses, loop-free over the full input domain (all VRs x all tags x all u32 lengths)",
        text="Complete proof (not bounded) that the three real header encoders emit exactly the PS3.5 7.1.2 layout and "
             "reject over-long 16-bit lengths, for every VR, tag and length; the spec table is written from the standard.",
        note="Trusted: Kani/CBMC, std `Write for &mut [u8]`. Backtrace capture stubbed. Error values are forgotten, not dropped.",
    ),
    "C04": dict(
        technique="Verus contracts on the extracted StatefulEncoder methods with a ghost byte log on the sink; Kani bounded harnesses for the value encoders' byte counts",
        text="Unbounded proof that each printer method advances bytes_written by exactly the bytes appended, writes even defined lengths equal to "
             "the value bytes that follow and pads odd values with the VR-specific byte; the value encoders' counts are bounded-checked only.",
        note="EncodeTo and the text codec are abstract callees; the link calculate_byte_len <-> encode_primitive is assumed in the proof and only "
             "bounded-checked; list-of-strings and DS/IS-as-text paths, the token-level writer and file writing are uncovered.",
    ),
    "C05": dict(
        technique="panic-freedom obligations of Kani (all inputs of fixed small lengths) and Verus (any input) on the leaf readers: header decoders, tag text, date/time text, PDU framing, value readers",
        text="Complete proofs of panic-freedom for the listed leaf entry points only; the property's whole-file, JSON, pixel-data and dump entry points "
             "are outside what these tools can process and are listed as uncovered.",
        note="Explicitly partial: only leaf parsers are decided. Termination is not proved by Kani; Verus proves termination of the extracted functions only.",
    ),
    "C07": dict(
        technique="Verus contracts on the extracted StatefulDecoder readers with ghost byte counters on the Read/BasicDecode shims; sanitize_length against the three strategies",
        text="Unbounded proof (every VR, every u32 length) that after each successful value/header/skip read the reported position equals the "
             "bytes consumed and a value consumes exactly its declared length; the odd-length strategies are proved equal to the statement.",
        note="std Read/io::copy and the basic decoders are assumed to consume what they document; parsed text content is abstracted; the "
             "token loops of the data set readers that consume sanitize_length's result are not covered.",
    ),
    "C31": dict(
        technique="bounded native enumeration of command set construction against the real Implicit VR LE writer (stand-in), plus a Verus proof of the even_len kernel",
        text="Not a proof of the property: 1377 enumerated command element lists (incl. duplicate tags and stale group lengths) are built and written "
             "by the real code and the recorded group length is compared with the bytes written. Only the even_len kernel is proved.",
        note="command_from_iter_with_dict is outside both verifiers' reach (BTreeMap, closures, dictionary types); bounded stand-in, stated as such.",
    ),
    "C27": dict(
        technique="Verus loop invariant on the extracted synchronous receive loop, transport segmentation universally quantified through the fill_buf contract",
        text="Unbounded proof, for every segmentation of the byte stream, that each receive returns the first PDU of the logical stream and leaves exactly "
             "the rest, hence successive receives return the PDUs in order without loss or duplication. The asynchronous twin is not verified.",
        note="read_pdu is an abstract callee with an assumed prefix-stability axiom; BufReader is treated as transparent; async receiver uncovered.",
    ),
    "C34": dict(
        technique="Kani/CBMC harnesses with a writer failing at a symbolic offset under the real leaf encoders; Verus ghost failure counters on the Write/Read shims of the extracted printer, decoder and P-DATA writer",
        text="Proof that the leaf encoders, every method of the stateful encoder/decoder and the P-DATA writer return an error whenever the underlying "
             "writer or reader reported a failure during the call. Whole-object writers/readers and associations are not covered.",
        note="Failure = writer accepting zero bytes / reader or writer returning Err in the shims. File-level and network-level operations uncovered.",
    ),
    "C08": dict(
        technique="Kani/CBMC contract harnesses inside the real module, loop-free over all 12-byte inputs and all dictionary answers",
        text="Complete proof that the adaptive decoder's first header equals the explicit (resp. implicit) decoder's result under "
             "the stated unambiguity condition and that a locked decoder equals that decoder forever after.",
        note="Dictionary represented by its contract (symbolic answer); std dictionary content not verified here. Backtrace stubbed.",
    ),
    "C09": dict(
        technique="Verus contract on the extracted group length computation against the PS3.10 Table 7.1-1 element list",
        text="Unbounded proof (any string lengths, any optional-field combination) that the computed File Meta Information Group Length equals the "
             "encoded size of the elements that follow it; storing, writing and reading back the table are not covered.",
        note="Only the length computation is decided. Writer/reader of the meta group, attribute operations and preamble handling are uncovered.",
    ),
    "C11": dict(
        technique="Kani/CBMC contract harnesses: loop-free over every stored number for to_int (complete); concrete small lengths for multi-valued conversions and edits (bounded)",
        text="Complete proof that binary integer values convert to every integer type exactly or fail; bounded checks of the multi-valued "
             "conversions, truncate and extend_u16 that are listed separately and not counted as proved.",
        note="Textual numbers and the remaining extend_* methods are uncovered. Error values are forgotten (never dropped) in harnesses.",
    ),
    "C12": dict(
        technique="Kani/CBMC contract harnesses over all inputs for the constructors; Verus contracts on the extracted partial date/time parsers",
        text="Complete proofs that constructors accept exactly the valid component ranges and that the DICOM text of every valid partial date "
             "and time parses back to the same value with the same precision (and that parsing any bytes cannot panic). The text *producer*, "
             "date-times with offsets and the range bounds are not covered.",
        note="read_number is abstract in the Verus unit; to_encoded, AsRange, date-time and range parsing are uncovered (chrono / fmt machinery).",
    ),
    "C14": dict(
        technique="Kani/CBMC contract harnesses over every valid UTF-8 string of the relevant lengths (all bytes symbolic, loop bounds fixed by the length)",
        text="Complete proof for the tag parser: it accepts exactly the three hexadecimal forms in any letter case, returns the tag spelled, "
             "rejects everything else and cannot panic on multi-byte input. Printing and attribute selectors are not covered.",
        note="Only Tag::from_str is decided; Display, selectors and keyword lookup are uncovered.",
    ),
    "C15": dict(
        technique="Verus contracts on the extracted lookup and indexing functions with the registry abstracted to a Map/Set view",
        text="Unbounded proof, for all 2^32 tags and any table content, that the lookup follows the stated precedence; the generated "
             "table's content is a finite fact not decided by this technique.",
        note="std HashMap/HashSet, Option::or_else and the lazy static are assumed; table content, keywords and UID dictionaries uncovered.",
    ),
    "C16": dict(
        technique="Kani/CBMC contract harness over all codec shapes for the capability queries; exhaustive native evaluation over the finite registry",
        text="Complete proof that the capability queries equal the stated predicates for every descriptor shape; the per-entry facts of the registry "
             "(UID lookup, uniqueness, implicit/big-endian, decoder/encoder presence) are decided by exhaustive evaluation of the 46 entries, "
             "reported as exhaustive enumeration, not as a deductive result.",
        note="Registry content depends on cargo features (native+deflate used). decoder_for/encoder_for cannot be compiled by Kani 0.68 (ICE).",
    ),
    "C18": dict(
        technique="Verus loop invariant on the extracted default PixelDataWriter::encode; Kani bounded harnesses for Fragments::new / From<Vec<Fragments>>",
        text="Unbounded proof (any number of frames, any frame sizes) that the multi-frame encode driver builds the PS3.5 A.4 basic "
             "offset table; the Fragments helpers are only bounded-checked (concrete small lengths) and are not counted as proved.",
        note="encode_frame is an abstract callee; Fragments units are BOUNDED (listed under coverage.bounded_units). Total-length "
             "attribute and frame_pixel_data are not covered.",
    ),
    "C20": dict(
        technique="bounded native enumeration of the real RLE adapter against a reference Annex G encoder (stand-in: neither Kani nor Verus reaches this code)",
        text="Not a proof: 288 small images (all combinations of bit depth, samples per pixel, 1-3 pixels, 1-2 frames, four run splits, three "
             "contents) are decoded by the real adapter and compared with the specified output. Chosen because the contract tools cannot "
             "process this function (measured), and stated as such.",
        note="Bounded stand-in outside the deductive family; images beyond the bound and malformed input are uncovered.",
    ),
    "C25": dict(
        technique="Verus contracts on the extracted chunk writers (all item lengths) and on the framing head of read_pdu (declared cut)",
        text="Proof that every length-prefixed item is written with a length that matches its content or the write fails, and that the "
             "reader's framing treats every strict prefix as incomplete and enforces the strict maximum; PDU-type bodies are not covered.",
        note="Per-type encode/decode bodies of write_pdu/read_pdu are uncovered (Kani ICE, outside Verus' subset); builder closures and "
             "byte sinks are abstract.",
    ),
    "C26": dict(
        technique="Verus contracts (requires/ensures + representation invariant) on the extracted text of the synchronous P-DATA writer",
        text="Unbounded proof, for every payload, max PDU length and chunking, that each PDU handed to the transport is a "
             "well-formed single-PDV P-DATA-TF within the limit, only finish marks last, payloads concatenate to the accepted "
             "bytes, write makes progress, and transport errors propagate.",
        note="Assumes the std::io::Write::write_all contract for the transport, 64-bit usize, 6 <= max_pdu_length <= 2^32-7 "
             "at construction. Async writer and P-DATA reader are not covered.",
    ),
}

NOT_APPLICABLE = {
    "C20": "Measured: Kani 0.68 cannot finish a 2-pixel 8-bit image in 900 s (dyn PixelDataObject, io::Cursor, Read::take, read_to_end) and the adapter text is outside Verus' subset (step_by/enumerate adapters, dyn objects). The defect S4 was found and fixed with an auxiliary native enumerator (./check C20, 288 images, not claimed).",
    "C31": "command_from_iter_with_dict is BTreeMap + iterator closures over dictionary-typed elements: outside Verus' subset; the object crate cannot be processed by Kani within budget. Only the even_len kernel is proved (./check C31, not claimed); defect S14 was found and fixed with the auxiliary native enumerator.",
    "C02": "Byte-exact read\u2192write of whole canonical streams judged against an independent encoder: needs an inductive proof over the `DataSetReader`/`DataSetWriter` token machines (trait objects, `Vec<SeqToken>`, `BTreeMap`), beyond Verus' Rust subset and CBMC's capacity; its per-function ingredients are decided under C03/C04/C07.",
    "C06": "Relational equivalence of three readers (eager, lazy, collector) over whole files with split points \u2014 multi-component state machines over `Read + Seek`; no single-call contract expresses it.",
    "C10": "Correctness is in the `encoding` crate's character tables (a dependency) and string round trips over 16 code pages; Verus has no `str` byte reasoning, CBMC cannot load the tables.",
    "C13": "Histories of operations on `InMemDicomObject` (`BTreeMap`, recursion through selectors, `String`s, dictionary `HashMap`) \u2014 outside both verifiers' reach; would be a model, not the code.",
    "C19": "Whole transcoder pipeline through codec adapters and object mutation.",
    "C21": "The 1-bit/native extraction is inline in 130-line methods on `FileDicomObject<InMemDicomObject>`; no separable function to put under contract without refactoring the repository.",
    "C23": "serde/serde_json visitor machinery and `Value` trees; no verifier support.",
    "C24": "Same as C23 (serialiser side; output is produced by serde_json).",
    "C28": "`process_a_association_rq` is `String`/`Cow`/`Vec`/closure code calling the lazy-static TS registry (`HashMap`) and trait-object access control; neither extractable to Verus' subset nor tractable in CBMC.",
    "C29": "Two live peers over TCP; sockets and threads are unsupported by both verifiers.",
    "C30": "Interleavings/schedules of a protocol state machine \u2014 concurrency and whole-history property; this family is silent on it (the brief's own example of what not to spend the day on).",
    "C32": "External binary + file system (`PathBuf::push`, `tokio`/threads); the path construction is one inline expression inside a 200-line server loop.",
    "C33": "External binary, network, transcoding.",
    "C35": "External binaries and the `image` crate.",
    "C36": "Parsing delegates to `std::net` address parsers and `str` splitting; string reasoning unsupported in Verus, too heavy for CBMC; no arithmetic or structural kernel to put under contract.",
    "C17": "String building/splitting (String::push_str, str::trim/split, Peekable) is outside Verus' subset and beyond the CBMC budget; no contract within reach decides it. An auxiliary native enumerator (./check C17, 16807 names, not claimed) exists.",
    "C22": "Floating-point formulas (rescale, window level, sigmoid): Verus has no float theory and CBMC's bit-precise floats can only restate the code; the integer LUT index mapping alone does not decide the property. Not attempted.",
    "C34": "check not built yet in this session (planned in DESIGN.md section 7); not claimed until its check runs"
}


# ---------------------------------------------------------------- session 2: units added after the second seed round
_STANDIN = (" A native enumeration of the compiled code (%s) accompanies the deductive units as a bounded stand-in, never counted as "
            "proved; it supplies the failing input when a restructuring leaves an extracted-text proof undecided.")
CHECKS["C01"].update(
    technique="Kani/CBMC contract harnesses, loop-free over every scalar value and every header, for the basic codecs and header codecs; "
              "bounded native enumeration at element level (stand-in)",
    note="Claimed for the scalar/header layer only (DESIGN.md C01). Whole-data-set round trip (tokens, sequences, objects), non-default "
         "character sets and pixel data are uncovered. Element-level write-then-read is covered only by the native unit C01.elements "
         "(bounded stand-in, never counted as proved), which exposed defect S16.")
CHECKS["C04"].update(
    technique=CHECKS["C04"]["technique"] + "; bounded native enumeration of whole elements judged by an independent layout reader (stand-in)",
    note=CHECKS["C04"]["note"].replace("list-of-strings and DS/IS-as-text paths, the token-level writer and file writing are uncovered.",
                                        "list-of-strings and DS/IS-as-text paths are covered only by the native unit C04.elements (bounded); "
                                        "the token-level writer and file writing are uncovered."))
CHECKS["C07"].update(
    technique=CHECKS["C07"]["technique"] + "; the delimiter stack of both token readers (defined-length items and sequences end exactly at "
              "their length); bounded native enumerations at value and data-set level (stand-ins)",
    note=CHECKS["C07"]["note"].replace("the token loops of the data set readers that consume sanitize_length's result are not covered.",
                                        "the token loops of the data set readers are covered only through update_seq_delimiters / "
                                        "push_sequence_token (Verus) and the native unit C07.dataset (bounded)."))
CHECKS["C09"].update(
    technique=CHECKS["C09"]["technique"] + "; bounded native enumerations of written tables and of attribute operations (stand-ins)",
    note="Only the length computation is decided deductively. Writing / reading back the group and attribute operations are covered only by "
         "the native units C09.written_length and C09.after_operations (bounded, never counted as proved); preamble handling is uncovered.")
CHECKS["C11"].update(
    note=CHECKS["C11"]["note"].replace("Textual numbers and the remaining extend_* methods are uncovered.",
                                        "Textual numbers, extend_str and numbers appended to textual values are uncovered."))
CHECKS["C12"].update(
    technique="Kani/CBMC contract harnesses over all inputs for the constructors; Verus contracts on the extracted partial date/time parsers and "
              "on AsRange earliest / latest of dates and times; native enumeration of every valid date and fraction-less time (stand-in, "
              "covers to_encoded)",
    note="read_number is abstract in the Verus unit; to_encoded (fmt machinery) is covered only by the native unit C12.native; date-time "
         "values, time zones and range texts are uncovered; chrono constructors are assumed (listed).")
CHECKS["C18"].update(
    technique="Verus loop invariants on the extracted default PixelDataWriter::encode, PixelDataObject::frame_pixel_data, "
              "From<Vec<Fragments>> (any number of frames) and Fragments::new (any size); Kani bounded harnesses and a native enumeration on the "
              "compiled code, incl. transcoding into every encoder target (stand-ins)",
    text="Unbounded proofs (any number of frames, any frame sizes) that the multi-frame encode driver and the Fragments conversion build the "
         "PS3.5 A.4 basic offset table, that Fragments::new yields even, equal-sized fragments holding the data plus zero padding, and that "
         "frame_pixel_data returns exactly the fragments the table assigns to a frame.",
    note="encode_frame, Fragments::len and the chunks_exact iterator chain are abstract callees with their std / documented meaning; the Kani "
         "and native Fragments units are BOUNDED (listed under coverage.bounded_units) and cross-check those callees on the compiled code. The "
         "The transcoding clause (offset table, even fragments in the written stream, Number of Frames and the Total-Length attribute after "
         "dicom_pixeldata::Transcode into each of the 3 encoder targets of this build) is decided only by the BOUNDED native unit C18.transcode; "
         "native (unencapsulated) frames are not covered.")
CHECKS["C25"].update(
    technique=CHECKS["C25"]["technique"] + "; native enumeration of PDUs of every type with an independent PS3.8 length reader (stand-in)",
    note="Per-type encode/decode bodies of write_pdu/read_pdu are outside both verifiers (Kani ICE, outside Verus' subset) and are covered only "
         "by the native unit C25.pdus (bounded, never counted as proved); every length field is written by write_chunk_u16/u32 (proved); "
         "builder closures and byte sinks are abstract.")
CHECKS["C26"].update(
    technique="Verus contracts (requires/ensures + representation invariant) on the extracted text of the synchronous P-DATA writer and reader; "
              "native message-level enumeration of the reader (stand-in)",
    note=CHECKS["C26"]["note"].replace("Async writer and P-DATA reader are not covered.",
                                        "The asynchronous writer and reader are not covered; the reader is proved per call (Verus) and "
                                        "cross-checked at message level by the native unit C26.reader_messages (bounded)."))
CHECKS["C34"].update(
    technique=CHECKS["C34"]["technique"] + "; native sweep of the failure offset over whole data sets and files (stand-in)",
    note=CHECKS["C34"]["note"] + " Whole data sets and files are covered only by the native unit C34.io_failures (every failure offset of two "
         "small objects; bounded, never counted as proved).")
CHECKS["C05"].update(
    technique=CHECKS["C05"]["technique"] + "; native sweep of truncated / mutated inputs through the file, data set and PDU readers (stand-in)",
    note=CHECKS["C05"]["note"] + " File, data set (eager, lazy) and whole-PDU readers are exercised only by the native unit C05.hostile "
         "(truncations and single-byte mutations of small inputs; bounded, never counted as proved).")
CHECKS["C11"].update(
    technique=CHECKS["C11"]["technique"] + "; native enumeration of the textual conversions and edits (stand-in)",
    note=CHECKS["C11"]["note"].replace("Textual numbers, extend_str and numbers appended to textual values are uncovered.",
                                        "Textual numbers, extend_str and numbers appended to textual values are covered only by the native unit C11.text "
                                        "(bounded, never counted as proved)."))
CHECKS["C26"].update(
    technique="Verus contracts (requires/ensures + representation invariant) on the extracted text of the synchronous P-DATA writer and reader; "
              "native message-level enumerations of the reader and, over a loopback association inside the process, of the writer (stand-ins)")
CHECKS["C09"].update(
    technique=CHECKS["C09"]["technique"].replace("bounded native enumerations of written tables and of attribute operations (stand-ins)",
                                                   "bounded native enumerations of written tables, of attribute operations and of preamble handling (stand-ins)"),
    note=CHECKS["C09"]["note"].replace("preamble handling is uncovered.", "preamble handling is covered only by the native unit C09.preamble."))
CHECKS["C15"].update(
    technique=CHECKS["C15"]["technique"] + "; exhaustive native enumeration of all 2^32 tags, all keywords and all SOP class rows against the text of the generated tables (stand-in)")
CHECKS["C01"].update(
    technique=CHECKS["C01"]["technique"].replace("bounded native enumeration at element level (stand-in)", "bounded native enumerations at element and data-set level (stand-ins)"),
    note=CHECKS["C01"]["note"].replace("Whole-data-set round trip (tokens, sequences, objects), non-default character sets and pixel data are uncovered. Element-level write-then-read is covered only by the native unit C01.elements (bounded stand-in, never counted as proved), which exposed defect S16.",
                                        "Element-level and whole-data-set round trips (nested sequences, encapsulated pixel data, deflate) are covered only by the native units C01.elements / C01.objects (bounded stand-ins, never counted as proved), which exposed defects S16 and S17; non-default character sets are uncovered."))
CHECKS["C04"].update(
    note=CHECKS["C04"]["note"].replace("the token-level writer and file writing are uncovered.", "the token-level writer (delimiters, defined lengths) is covered only by the native unit C04.streams (independent structural reader over a few objects); file writing is uncovered."))
CHECKS["C14"].update(
    technique=CHECKS["C14"]["technique"] + "; native enumeration of printed tags, selectors and keywords in selectors (stand-in)",
    note=CHECKS["C14"]["note"] + " Printing (Display) and the attribute selector syntax are covered only by the native unit C14.text (bounded, never counted as proved).")
CHECKS["C27"].update(
    technique=CHECKS["C27"]["technique"] + "; native runs of the segmentations of a fixed stream and of the buffer hand-over after the handshake (stand-ins)")
CHECKS["C07"].update(
    note=CHECKS["C07"]["note"].replace("and the native unit C07.dataset (bounded).", "and the native unit C07.dataset (bounded: eager and lazy readers, items and pixel data fragments with odd lengths)."))
CHECKS["C08"].update(
    technique=CHECKS["C08"]["technique"] + "; native comparison of header streams with the real dictionary (stand-in)")
CHECKS["C05"].update(
    note=CHECKS["C05"]["note"].replace("are exercised only by the native unit C05.hostile", "— and JSON deserialisation, dumping and pixel data decoding — are exercised only by the native units C05.hostile / C05.hostile2"))
CHECKS["C26"].update(
    technique=CHECKS["C26"]["technique"].replace("of the writer (stand-ins)", "of the writer, and of the asynchronous writer and reader (stand-ins)"),
    note=CHECKS["C26"]["note"].replace("The asynchronous writer and reader are not covered;", "The asynchronous writer and reader are covered only by the native unit C26.async (no async support in either verifier);"))

# --- notes brought in line with the units as built (end of session 2) ---
CHECKS["C12"].update(
    note="read_number is abstract in the Verus unit; to_encoded (fmt machinery), date-time values, time-zone offsets and range texts are covered "
         "only by the native unit C12.native (bounded, never counted as proved); chrono constructors are assumed (listed).")
CHECKS["C14"].update(
    note="Only Tag::from_str is decided deductively; printing (Display) and the attribute selector syntax are covered only by the native unit "
         "C14.text (bounded, never counted as proved); keyword lookup belongs to C15.")
CHECKS["C15"].update(
    note="std HashMap/HashSet, Option::or_else and the lazy static are assumed; the CONTENT of the standard tables (every entry, keyword and "
         "SOP class UID found again through the index) is covered only by the native unit C15.exhaustive (an enumeration of the whole table, "
         "not a deductive result).")
CHECKS["C27"].update(
    note="read_pdu is an abstract callee with an assumed prefix-stability axiom; BufReader is treated as transparent; the asynchronous receiver "
         "and real associations over loopback TCP (several PDUs arriving in one transport read, or byte by byte) are covered only by the native unit "
         "C27.association (bounded, never counted as proved).")
CHECKS["C18"].update(note=CHECKS["C18"]["note"].replace("The The transcoding", "The transcoding"))
CHECKS["C05"].update(
    note=CHECKS["C05"]["note"].replace("C05.hostile / C05.hostile2", "C05.hostile / C05.hostile2 / C05.hostile3")
         + " Attribute selector and range texts, the JPEG / deflated-frame / encapsulated-uncompressed decoders on damaged fragments, the deflated "
           "data set transfer syntax and the file meta reader on its own are exercised only by C05.hostile3 (bounded).")
CHECKS["C04"].update(
    technique=CHECKS["C04"]["technique"] + "; Verus contract on the extracted token-level DataSetWriter::write (delimiters emitted exactly for undefined-length containers; fragments vs data set items)",
    note=CHECKS["C04"]["note"] + " The token-level writer DataSetWriter::write is under contract per call (C04.dataset_writer; write_impl abstract); the balance of a whole token stream is the induction over calls and is not machine-composed.")
CHECKS["C05"].update(
    technique=CHECKS["C05"]["technique"] + "; child-process runs for the aborts that cannot be caught in-process (stack overflow, failed allocation)",
    note=CHECKS["C05"]["note"] + " The 'never aborts' clause is exercised by the native units C05.depth (nesting depth, fixed 8 MiB stack) and C05.alloc "
         "(huge declared lengths / image attributes under a 1 GiB address space), each case in a child process; they reproduce two KNOWN FINDINGS that are "
         "recorded, not repaired (known_findings.txt: S24 eager reader recursion, S25 value buffers allocated from the declared length): the check prints one "
         "KNOWN-FINDING line for each and exits 0; any other dead child is a VIOLATION.")
