//! Native cross-check for C25 on the compiled code (stand-in; not a deductive result): a family of
//! well-formed PDUs of every type (A-ASSOCIATE-RQ / -AC with 0-2 presentation contexts and every kind of
//! user-information sub-item, A-ASSOCIATE-RJ, P-DATA-TF with 1-2 values of 0-3 bytes, A-RELEASE-RQ / -RP,
//! A-ABORT, unknown types) is written with the real `write_pdu` and
//!   (a) walked by an independent reader of the PS3.8 length structure (PDU length, item and sub-item
//!       lengths, PDV lengths): every length field equals the content it describes, nothing is left over;
//!   (b) read back with the real `read_pdu`: equal value, exactly the written bytes consumed — also when
//!       more bytes follow;
//!   (c) every strict prefix reads as incomplete (Ok(None)), never as an error or another PDU;
//! plus the limits: an item content of 65535 bytes is written and read back, one of 65536 bytes makes
//! writing fail; in strict mode a PDU longer than the maximum is rejected.
use dicom_ul::pdu::*;
use std::io::Cursor;

struct Tally { cases: u64, bad: u64 }
impl Tally {
    fn fail(&mut self, what: String) {
        self.bad += 1;
        if self.bad <= 8 { println!("WITNESS unit=C25.pdus {}", what); }
    }
}

fn be16(b: &[u8], i: usize) -> Option<usize> { Some(u16::from_be_bytes([*b.get(i)?, *b.get(i + 1)?]) as usize) }
fn be32(b: &[u8], i: usize) -> Option<usize> { Some(u32::from_be_bytes([*b.get(i)?, *b.get(i + 1)?, *b.get(i + 2)?, *b.get(i + 3)?]) as usize) }

/// items {type, reserved, u16 length, content}: must tile `b` exactly; returns (type, content) pairs
fn items(b: &[u8]) -> Option<Vec<(u8, &[u8])>> {
    let mut out = Vec::new();
    let mut i = 0;
    while i < b.len() {
        let len = be16(b, i + 2)?;
        let content = b.get(i + 4..i + 4 + len)?;
        out.push((b[i], content));
        i += 4 + len;
    }
    Some(out)
}

/// independent check of the length structure of one encoded PDU
fn structure_ok(b: &[u8]) -> Result<(), String> {
    if b.len() < 6 { return Err("shorter than a PDU header".into()); }
    let plen = be32(b, 2).unwrap();
    if plen != b.len() - 6 { return Err(format!("PDU length field {} but {} bytes follow the header", plen, b.len() - 6)); }
    let body = &b[6..];
    match b[0] {
        0x01 | 0x02 => {
            if body.len() < 68 { return Err("A-ASSOCIATE body shorter than its fixed part".into()); }
            let its = items(&body[68..]).ok_or("variable items do not tile the PDU")?;
            for (ty, content) in its {
                match ty {
                    0x10 => {}
                    0x20 | 0x21 => {
                        if content.len() < 4 { return Err("presentation context item shorter than 4 bytes".into()); }
                        let subs = items(&content[4..]).ok_or("presentation context sub-items do not tile the item")?;
                        if subs.iter().any(|(t, _)| *t != 0x30 && *t != 0x40) { return Err("unexpected sub-item in a presentation context".into()); }
                    }
                    0x50 => {
                        let subs = items(content).ok_or("user information sub-items do not tile the item")?;
                        for (t, c) in subs {
                            match t {
                                0x51 => if c.len() != 4 { return Err("maximum length sub-item is not 4 bytes".into()); },
                                0x54 => { let n = be16(c, 0).ok_or("role selection too short")?; if c.len() != 2 + n + 2 { return Err("role selection: UID length does not match".into()); } }
                                0x56 => { let n = be16(c, 0).ok_or("extended negotiation too short")?; if c.len() < 2 + n { return Err("extended negotiation: UID length exceeds the sub-item".into()); } }
                                0x58 => { let n = be16(c, 2).ok_or("user identity too short")?; let m = be16(c, 4 + n).ok_or("user identity: primary field length exceeds the sub-item")?; if c.len() != 4 + n + 2 + m { return Err("user identity: field lengths do not match the sub-item".into()); } }
                                _ => {}
                            }
                        }
                    }
                    _ => return Err(format!("unexpected item type {:02X}", ty)),
                }
            }
            Ok(())
        }
        0x03 | 0x05 | 0x06 | 0x07 => if plen == 4 { Ok(()) } else { Err(format!("fixed-size PDU with length {}", plen)) },
        0x04 => {
            let mut i = 0;
            while i < body.len() {
                let l = be32(body, i).ok_or("PDV length field cut short")?;
                if l < 2 || i + 4 + l > body.len() { return Err(format!("PDV length {} does not fit the PDU", l)); }
                i += 4 + l;
            }
            Ok(())
        }
        _ => Ok(()),
    }
}

fn check(t: &mut Tally, pdu: &Pdu, what: &str) {
    t.cases += 1;
    let mut bytes = Vec::new();
    if let Err(e) = write_pdu(&mut bytes, pdu) { return t.fail(format!("{}: writing a well-formed PDU failed: {}", what, e)); }
    if let Err(e) = structure_ok(&bytes) { return t.fail(format!("{}: {} (bytes {:02X?})", what, e, &bytes[..bytes.len().min(96)])); }
    for extra in [0usize, 7] {
        let mut stream = bytes.clone();
        stream.extend(std::iter::repeat(0x04).take(extra));
        let mut cur = Cursor::new(&stream[..]);
        match read_pdu(&mut cur, MAXIMUM_PDU_SIZE, true) {
            Ok(Some(back)) if back == *pdu && cur.position() as usize == bytes.len() => {}
            Ok(Some(back)) => return t.fail(format!("{}: read back as {:?} consuming {} of {} bytes ({} more bytes follow)", what, back, cur.position(), bytes.len(), extra)),
            Ok(None) => return t.fail(format!("{}: the complete PDU ({} bytes) reads as incomplete", what, bytes.len())),
            Err(e) => return t.fail(format!("{}: does not read back: {}", what, e)),
        }
    }
    for cut in 0..bytes.len() {
        let mut cur = Cursor::new(&bytes[..cut]);
        match read_pdu(&mut cur, MAXIMUM_PDU_SIZE, true) {
            Ok(None) => {}
            Ok(Some(p)) => return t.fail(format!("{}: the first {} of {} bytes read as a PDU: {:?}", what, cut, bytes.len(), p)),
            Err(e) => return t.fail(format!("{}: the first {} of {} bytes read as an error instead of incomplete: {}", what, cut, bytes.len(), e)),
        }
    }
}

fn user_variable_sets() -> Vec<(String, Vec<UserVariableItem>)> {
    let singles: Vec<(&str, UserVariableItem)> = vec![
        ("MaxLength", UserVariableItem::MaxLength(16384)),
        ("ImplementationClassUID", UserVariableItem::ImplementationClassUID("1.2.3.4".to_string())),
        ("ImplementationVersionName", UserVariableItem::ImplementationVersionName("V1".to_string())),
        ("SopClassExtendedNegotiation", UserVariableItem::SopClassExtendedNegotiationSubItem("1.2.840.10008.5.1.4.1.1.2".to_string(), vec![1, 0, 1])),
        ("SopClassExtendedNegotiation(empty)", UserVariableItem::SopClassExtendedNegotiationSubItem("1.2.3".to_string(), vec![])),
        ("ScuScpRoleSelection", UserVariableItem::ScuScpRoleSelectionSubItem("1.2.840.10008.5.1.4.1.1.2".to_string(), RequestorRoles { scu: true, scp: false })),
        ("UserIdentity(Username)", UserVariableItem::UserIdentityItem(UserIdentity::new(false, UserIdentityType::Username, b"user".to_vec(), vec![]))),
        ("UserIdentity(UsernamePassword)", UserVariableItem::UserIdentityItem(UserIdentity::new(true, UserIdentityType::UsernamePassword, b"user".to_vec(), b"pw".to_vec()))),
        ("UserIdentity(Jwt, empty)", UserVariableItem::UserIdentityItem(UserIdentity::new(false, UserIdentityType::Jwt, vec![], vec![]))),
        ("Unknown(0x59)", UserVariableItem::Unknown(0x59, vec![9, 8, 7])),
        ("Unknown(0x59, empty)", UserVariableItem::Unknown(0x59, vec![])),
    ];
    let mut sets = vec![("no user variables".to_string(), vec![])];
    for (n, v) in &singles { sets.push((n.to_string(), vec![v.clone()])); }
    sets.push(("all user variables".to_string(), singles.iter().map(|(_, v)| v.clone()).collect()));
    sets
}

fn main() {
    let mut t = Tally { cases: 0, bad: 0 };
    check(&mut t, &Pdu::ReleaseRQ, "A-RELEASE-RQ");
    check(&mut t, &Pdu::ReleaseRP, "A-RELEASE-RP");
    let abort_sources = vec![
        AbortRQSource::ServiceUser, AbortRQSource::Reserved,
        AbortRQSource::ServiceProvider(AbortRQServiceProviderReason::ReasonNotSpecified), AbortRQSource::ServiceProvider(AbortRQServiceProviderReason::UnrecognizedPdu),
        AbortRQSource::ServiceProvider(AbortRQServiceProviderReason::UnexpectedPdu), AbortRQSource::ServiceProvider(AbortRQServiceProviderReason::Reserved),
        AbortRQSource::ServiceProvider(AbortRQServiceProviderReason::UnrecognizedPduParameter), AbortRQSource::ServiceProvider(AbortRQServiceProviderReason::UnexpectedPduParameter),
        AbortRQSource::ServiceProvider(AbortRQServiceProviderReason::InvalidPduParameter),
    ];
    for s in abort_sources { check(&mut t, &Pdu::AbortRQ { source: s.clone() }, &format!("A-ABORT {:?}", s)); }
    let rj_sources = vec![
        AssociationRJSource::ServiceUser(AssociationRJServiceUserReason::NoReasonGiven), AssociationRJSource::ServiceUser(AssociationRJServiceUserReason::ApplicationContextNameNotSupported),
        AssociationRJSource::ServiceUser(AssociationRJServiceUserReason::CallingAETitleNotRecognized), AssociationRJSource::ServiceUser(AssociationRJServiceUserReason::CalledAETitleNotRecognized),
        AssociationRJSource::ServiceProviderASCE(AssociationRJServiceProviderASCEReason::NoReasonGiven), AssociationRJSource::ServiceProviderASCE(AssociationRJServiceProviderASCEReason::ProtocolVersionNotSupported),
        AssociationRJSource::ServiceProviderPresentation(AssociationRJServiceProviderPresentationReason::TemporaryCongestion), AssociationRJSource::ServiceProviderPresentation(AssociationRJServiceProviderPresentationReason::LocalLimitExceeded),
    ];
    for r in [AssociationRJResult::Permanent, AssociationRJResult::Transient] {
        for s in &rj_sources { check(&mut t, &Pdu::AssociationRJ(AssociationRJ { result: r.clone(), source: s.clone() }), &format!("A-ASSOCIATE-RJ {:?} {:?}", r, s)); }
    }
    for ty in [0x00u8, 0x08, 0x7F, 0xFF] { for n in 0..=3usize {
        check(&mut t, &Pdu::Unknown { pdu_type: ty, data: (0..n as u8).collect() }, &format!("unknown PDU type {:02X} with {} bytes", ty, n));
    } }
    let pdv = |n: usize, ty: PDataValueType, last: bool, id: u8| PDataValue { presentation_context_id: id, value_type: ty, is_last: last, data: (0..n as u8).map(|i| 0xA0 + i).collect() };
    for n in 0..=3usize { for last in [false, true] { for ty in [PDataValueType::Command, PDataValueType::Data] {
        check(&mut t, &Pdu::PData { data: vec![pdv(n, ty.clone(), last, 1)] }, &format!("P-DATA-TF one value of {} bytes {:?} last={}", n, ty, last));
        for m in 0..=2usize {
            check(&mut t, &Pdu::PData { data: vec![pdv(n, ty.clone(), last, 1), pdv(m, PDataValueType::Data, true, 3)] }, &format!("P-DATA-TF two values of {} and {} bytes", n, m));
        }
    } } }
    let proposed = |k: usize| -> Vec<PresentationContextProposed> { (0..k).map(|i| PresentationContextProposed {
        id: (2 * i + 1) as u8, abstract_syntax: "1.2.840.10008.5.1.4.1.1.2".to_string(),
        transfer_syntaxes: (0..i + 1).map(|j| ["1.2.840.10008.1.2", "1.2.840.10008.1.2.1", "1.2.840.10008.1.2.4.50"][j % 3].to_string()).collect() }).collect() };
    let results = |k: usize| -> Vec<PresentationContextResult> { (0..k).map(|i| PresentationContextResult {
        id: (2 * i + 1) as u8, reason: [PresentationContextResultReason::Acceptance, PresentationContextResultReason::TransferSyntaxesNotSupported][i % 2].clone(),
        transfer_syntax: "1.2.840.10008.1.2".to_string() }).collect() };
    for (name, vars) in user_variable_sets() {
        for k in 0..=2usize {
            check(&mut t, &Pdu::AssociationRQ(AssociationRQ { protocol_version: 1, calling_ae_title: "CALLING".to_string(), called_ae_title: "CALLED-AE-16CHARS".chars().take(16).collect(),
                application_context_name: "1.2.840.10008.3.1.1.1".to_string(), presentation_contexts: proposed(k), user_variables: vars.clone() }),
                &format!("A-ASSOCIATE-RQ with {} presentation contexts, {}", k, name));
            check(&mut t, &Pdu::AssociationAC(AssociationAC { protocol_version: 1, calling_ae_title: "CALLING".to_string(), called_ae_title: "CALLED".to_string(),
                application_context_name: "1.2.840.10008.3.1.1.1".to_string(), presentation_contexts: results(k), user_variables: vars.clone() }),
                &format!("A-ASSOCIATE-AC with {} presentation contexts, {}", k, name));
        }
    }
    // every presentation context result reason; AE titles of 1 and 16 characters; both role flags; odd protocol version
    for reason in [PresentationContextResultReason::Acceptance, PresentationContextResultReason::UserRejection, PresentationContextResultReason::NoReason,
                   PresentationContextResultReason::AbstractSyntaxNotSupported, PresentationContextResultReason::TransferSyntaxesNotSupported] {
        check(&mut t, &Pdu::AssociationAC(AssociationAC { protocol_version: 1, calling_ae_title: "A".to_string(), called_ae_title: "SIXTEEN-CHARS-AE".to_string(),
            application_context_name: "1.2.840.10008.3.1.1.1".to_string(),
            presentation_contexts: vec![PresentationContextResult { id: 255, reason: reason.clone(), transfer_syntax: "1.2.840.10008.1.2.1".to_string() }], user_variables: vec![] }),
            &format!("A-ASSOCIATE-AC with result reason {:?}", reason));
    }
    for (scu, scp) in [(false, false), (false, true), (true, false), (true, true)] {
        check(&mut t, &Pdu::AssociationRQ(AssociationRQ { protocol_version: 3, calling_ae_title: "SIXTEEN-CHARS-AE".to_string(), called_ae_title: "B".to_string(),
            application_context_name: "1.2.840.10008.3.1.1.1".to_string(), presentation_contexts: proposed(1),
            user_variables: vec![UserVariableItem::ScuScpRoleSelectionSubItem("1.2.3".to_string(), RequestorRoles { scu, scp })] }),
            &format!("A-ASSOCIATE-RQ with role selection scu={} scp={}", scu, scp));
    }
    for ty in [UserIdentityType::Username, UserIdentityType::UsernamePassword, UserIdentityType::KerberosServiceTicket, UserIdentityType::SamlAssertion, UserIdentityType::Jwt] {
        for positive in [false, true] { for (p1, p2) in [(vec![], vec![]), (b"u".to_vec(), vec![]), (vec![], b"s".to_vec()), (b"user".to_vec(), b"secret".to_vec())] {
            check(&mut t, &Pdu::AssociationRQ(AssociationRQ { protocol_version: 1, calling_ae_title: "A".to_string(), called_ae_title: "B".to_string(),
                application_context_name: "1.2.840.10008.3.1.1.1".to_string(), presentation_contexts: proposed(1),
                user_variables: vec![UserVariableItem::UserIdentityItem(UserIdentity::new(positive, ty.clone(), p1.clone(), p2.clone()))] }),
                &format!("A-ASSOCIATE-RQ with user identity {:?} positive={} fields {}/{} bytes", ty, positive, p1.len(), p2.len()));
        } }
    }
    // limits of the 16-bit item length
    let rq = |n: usize| Pdu::AssociationRQ(AssociationRQ { protocol_version: 1, calling_ae_title: "A".to_string(), called_ae_title: "B".to_string(),
        application_context_name: "1".repeat(n), presentation_contexts: vec![], user_variables: vec![] });
    t.cases += 2;
    {
        let mut bytes = Vec::new();
        match write_pdu(&mut bytes, &rq(65535)) {
            Ok(()) => {
                if let Err(e) = structure_ok(&bytes) { t.fail(format!("item content of 65535 bytes: {}", e)); }
                else if !matches!(read_pdu(&mut Cursor::new(&bytes[..]), MAXIMUM_PDU_SIZE, true), Ok(Some(p)) if p == rq(65535)) { t.fail("item content of 65535 bytes does not read back equal".to_string()); }
            }
            Err(e) => t.fail(format!("item content of 65535 bytes (fits the length field) was refused: {}", e)),
        }
        let mut bytes = Vec::new();
        if write_pdu(&mut bytes, &rq(65536)).is_ok() {
            t.fail(format!("an item content of 65536 bytes was written although its 16-bit length field cannot express it (item length field reads {:?})", be16(&bytes, 6 + 68 + 2)));
        }
    }
    // strict mode: a PDU longer than the maximum is rejected; at the maximum it is accepted
    t.cases += 2;
    {
        let p = Pdu::PData { data: vec![pdv(3, PDataValueType::Data, true, 1)] };
        let mut bytes = Vec::new();
        write_pdu(&mut bytes, &p).expect("write");
        let plen = (bytes.len() - 6) as u32;
        // MINIMUM_PDU_SIZE is the smallest maximum the reader accepts; build a PDU just above it
        let big = Pdu::PData { data: vec![PDataValue { presentation_context_id: 1, value_type: PDataValueType::Data, is_last: true, data: vec![0; MINIMUM_PDU_SIZE as usize] }] };
        let mut big_bytes = Vec::new();
        write_pdu(&mut big_bytes, &big).expect("write");
        let big_len = (big_bytes.len() - 6) as u32;
        if !matches!(read_pdu(&mut Cursor::new(&big_bytes[..]), big_len, true), Ok(Some(_))) { t.fail(format!("strict mode: a PDU of length {} is refused with maximum {}", big_len, big_len)); }
        if !matches!(read_pdu(&mut Cursor::new(&big_bytes[..]), big_len - 1, true), Err(_)) { t.fail(format!("strict mode: a PDU of length {} is accepted with maximum {}", big_len, big_len - 1)); }
        let _ = plen;
    }
    // an AE title that does not fit its fixed 16-byte field: refused, never cut short (17 and 30 characters, each of the four fields)
    for n in [17usize, 30] {
        for field in 0..4 {
            t.cases += 1;
            let long = "ABCDEFGHIJKLMNOPQRSTUVWXYZ0123".chars().take(n).collect::<String>();
            let (c1, c2) = if field % 2 == 0 { (long.clone(), "B".to_string()) } else { ("A".to_string(), long.clone()) };
            let pdu = if field < 2 {
                Pdu::AssociationRQ(AssociationRQ { protocol_version: 1, calling_ae_title: c1, called_ae_title: c2, application_context_name: "1.2.840.10008.3.1.1.1".to_string(), presentation_contexts: vec![], user_variables: vec![] })
            } else {
                Pdu::AssociationAC(AssociationAC { protocol_version: 1, calling_ae_title: c1, called_ae_title: c2, application_context_name: "1.2.840.10008.3.1.1.1".to_string(), presentation_contexts: vec![], user_variables: vec![] })
            };
            let mut bytes = Vec::new();
            if write_pdu(&mut bytes, &pdu).is_ok() {
                let back = read_pdu(&mut Cursor::new(&bytes[..]), MAXIMUM_PDU_SIZE, true).ok().flatten();
                t.fail(format!("an AE title of {} characters was written ({}); it reads back as {:?}", n, if field < 2 { "A-ASSOCIATE-RQ" } else { "A-ASSOCIATE-AC" }, back.map(|p| match p { Pdu::AssociationRQ(r) => (r.calling_ae_title, r.called_ae_title), Pdu::AssociationAC(r) => (r.calling_ae_title, r.called_ae_title), _ => (String::new(), String::new()) })));
            }
        }
    }
    println!("EXHAUSTIVE unit=C25.pdus cases={} mismatches={}", t.cases, t.bad);
}
