//! C12 — partial dates and times: constructors accept exactly the valid component ranges, the
//! DICOM text form parses back to the same value (and consumes the whole text).
use crate::common::no_bt;
use dicom_core::value::deserialize::{parse_date_partial, parse_time_partial};
use dicom_core::value::{DicomDate, DicomTime};

fn digit(n: u32, pos: u32) -> u8 {
    b'0' + ((n / pos) % 10) as u8
}

/// constructors: Ok <=> year <= 9999, 1 <= month <= 12, 1 <= day <= 31
#[kani::proof]
#[kani::unwind(4)]
#[kani::stub(std::backtrace::Backtrace::force_capture, no_bt)]
pub fn c12_date_constructors() {
    let y: u16 = kani::any();
    let m: u8 = kani::any();
    let d: u8 = kani::any();
    let vy = y <= 9999;
    let vm = m >= 1 && m <= 12;
    let vd = d >= 1 && d <= 31;
    match DicomDate::from_y(y) {
        Ok(v) => assert!(vy && *v.year() == y && v.month().is_none() && v.day().is_none(), "C12.ctor: from_y accepts only valid years and stores them"),
        Err(e) => { core::mem::forget(e); assert!(!vy, "C12.ctor: from_y accepts every valid year"); }
    }
    match DicomDate::from_ym(y, m) {
        Ok(v) => assert!(vy && vm && *v.year() == y && v.month() == Some(&m) && v.day().is_none(), "C12.ctor: from_ym accepts only valid components and stores them"),
        Err(e) => { core::mem::forget(e); assert!(!(vy && vm), "C12.ctor: from_ym accepts every valid year-month"); }
    }
    match DicomDate::from_ymd(y, m, d) {
        Ok(v) => assert!(vy && vm && vd && *v.year() == y && v.month() == Some(&m) && v.day() == Some(&d), "C12.ctor: from_ymd accepts only valid components and stores them"),
        Err(e) => { core::mem::forget(e); assert!(!(vy && vm && vd), "C12.ctor: from_ymd accepts every valid date"); }
    }
}

/// constructors: Ok <=> hour < 24, minute < 60, second <= 60, fraction within its precision
#[kani::proof]
#[kani::unwind(4)]
#[kani::stub(std::backtrace::Backtrace::force_capture, no_bt)]
pub fn c12_time_constructors() {
    let h: u8 = kani::any();
    let m: u8 = kani::any();
    let s: u8 = kani::any();
    let vh = h < 24;
    let vm = m < 60;
    let vs = s <= 60;
    match DicomTime::from_h(h) {
        Ok(v) => assert!(vh && *v.hour() == h && v.minute().is_none(), "C12.ctor: from_h accepts only valid hours"),
        Err(e) => { core::mem::forget(e); assert!(!vh, "C12.ctor: from_h accepts every valid hour"); }
    }
    match DicomTime::from_hm(h, m) {
        Ok(v) => assert!(vh && vm && v.minute() == Some(&m) && v.second().is_none(), "C12.ctor: from_hm accepts only valid components"),
        Err(e) => { core::mem::forget(e); assert!(!(vh && vm), "C12.ctor: from_hm accepts every valid hour-minute"); }
    }
    match DicomTime::from_hms(h, m, s) {
        Ok(v) => assert!(vh && vm && vs && v.second() == Some(&s), "C12.ctor: from_hms accepts only valid components (second 60 = leap second)"),
        Err(e) => { core::mem::forget(e); assert!(!(vh && vm && vs), "C12.ctor: from_hms accepts every valid time"); }
    }
}

#[kani::proof]
#[kani::unwind(4)]
#[kani::stub(std::backtrace::Backtrace::force_capture, no_bt)]
pub fn c12_time_fraction_constructors() {
    let h: u8 = kani::any();
    let m: u8 = kani::any();
    let s: u8 = kani::any();
    let f: u32 = kani::any();
    let valid_hms = h < 24 && m < 60 && s <= 60;
    match DicomTime::from_hms_milli(h, m, s, f) {
        Ok(v) => {
            assert!(valid_hms && f <= 999, "C12.ctor: from_hms_milli accepts only valid components (hour < 24, minute < 60, second <= 60, millisecond <= 999)");
            assert!(*v.hour() == h && v.minute() == Some(&m) && v.second() == Some(&s) && v.millisecond() == Some(f), "C12.ctor: components stored");
        }
        Err(e) => { core::mem::forget(e); assert!(!(valid_hms && f <= 999), "C12.ctor: from_hms_milli accepts every valid time"); }
    }
    match DicomTime::from_hms_micro(h, m, s, f) {
        Ok(v) => {
            assert!(valid_hms && f <= 999_999, "C12.ctor: from_hms_micro accepts only valid components (hour < 24, minute < 60, second <= 60, microsecond <= 999999)");
            assert!(v.fraction_micro() == Some(f), "C12.ctor: components stored");
        }
        Err(e) => { core::mem::forget(e); assert!(!(valid_hms && f <= 999_999), "C12.ctor: from_hms_micro accepts every valid time"); }
    }
}

fn any_digit() -> u8 {
    let d: u8 = kani::any();
    kani::assume(d <= 9);
    d
}

/// text form YYYY / YYYYMM / YYYYMMDD of every valid date parses back to the same value
/// (digits are symbolic; one harness per precision so that text lengths are concrete)
macro_rules! date_text_roundtrip {
    ($name:ident, $n:expr) => {
        #[kani::proof]
        #[kani::unwind(10)]
        #[kani::stub(std::backtrace::Backtrace::force_capture, no_bt)]
        pub fn $name() {
            let dg: [u8; 8] = [any_digit(), any_digit(), any_digit(), any_digit(), any_digit(), any_digit(), any_digit(), any_digit()];
            let y = dg[0] as u16 * 1000 + dg[1] as u16 * 100 + dg[2] as u16 * 10 + dg[3] as u16;
            let m = dg[4] * 10 + dg[5];
            let d = dg[6] * 10 + dg[7];
            let mut text = [0u8; $n];
            let mut i = 0;
            while i < $n { text[i] = b'0' + dg[i]; i += 1; }
            let valid = ($n < 6 || (m >= 1 && m <= 12)) && ($n < 8 || (d >= 1 && d <= 31));
            match parse_date_partial(&text[..]) {
                Ok((v, rest)) => {
                    assert!(valid, "C12.parse: a date text with an invalid month or day is rejected");
                    assert!(rest.len() == 0, "C12.parse: the whole date text is consumed");
                    assert!(*v.year() == y, "C12.parse: year parses back");
                    assert!(v.month() == (if $n >= 6 { Some(&m) } else { None }), "C12.parse: month parses back with the text's precision");
                    assert!(v.day() == (if $n >= 8 { Some(&d) } else { None }), "C12.parse: day parses back with the text's precision");
                    kani::cover!(true, "valid text reachable");
                }
                Err(e) => { core::mem::forget(e); assert!(!valid, "C12.parse: the text of a valid date parses"); }
            }
        }
    };
}
date_text_roundtrip!(c12_parse_date_y, 4);
date_text_roundtrip!(c12_parse_date_ym, 6);
date_text_roundtrip!(c12_parse_date_ymd, 8);

/// text form HH / HHMM / HHMMSS / HHMMSS.F..F of every valid time parses back to the same value
macro_rules! time_text_roundtrip {
    ($name:ident, $n:expr, $fp:expr) => {
        #[kani::proof]
        #[kani::unwind(16)]
        #[kani::stub(std::backtrace::Backtrace::force_capture, no_bt)]
        pub fn $name() {
            let dg: [u8; 12] = [any_digit(), any_digit(), any_digit(), any_digit(), any_digit(), any_digit(),
                                any_digit(), any_digit(), any_digit(), any_digit(), any_digit(), any_digit()];
            let h = dg[0] * 10 + dg[1];
            let m = dg[2] * 10 + dg[3];
            let s = dg[4] * 10 + dg[5];
            let mut text = [0u8; $n + (if $fp > 0 { 1 + $fp } else { 0 })];
            let mut i = 0;
            while i < $n { text[i] = b'0' + dg[i]; i += 1; }
            let mut frac: u32 = 0;
            if $fp > 0 {
                text[$n] = b'.';
                let mut k = 0;
                while k < $fp { text[$n + 1 + k] = b'0' + dg[6 + k]; frac = frac * 10 + dg[6 + k] as u32; k += 1; }
            }
            let valid = h < 24 && ($n < 4 || m < 60) && ($n < 6 || s <= 60);
            match parse_time_partial(&text[..]) {
                Ok((v, rest)) => {
                    assert!(valid, "C12.parse: a time text with an invalid component is rejected");
                    assert!(rest.len() == 0, "C12.parse: the whole time text is consumed");
                    assert!(*v.hour() == h, "C12.parse: hour parses back");
                    assert!(v.minute() == (if $n >= 4 { Some(&m) } else { None }), "C12.parse: minute parses back");
                    assert!(v.second() == (if $n >= 6 { Some(&s) } else { None }), "C12.parse: second parses back (60 = leap second)");
                    if $fp > 0 {
                        assert!(v.fraction_precision() == $fp as u8, "C12.parse: the fraction keeps its number of digits");
                        let mut scale = 1u32;
                        let mut k = $fp;
                        while k < 6 { scale *= 10; k += 1; }
                        assert!(v.fraction_micro() == Some(frac * scale), "C12.parse: the fraction parses back");
                    }
                    kani::cover!(true, "valid text reachable");
                }
                Err(e) => { core::mem::forget(e); assert!(!valid, "C12.parse: the text of a valid time parses"); }
            }
        }
    };
}
time_text_roundtrip!(c12_parse_time_h, 2, 0);
time_text_roundtrip!(c12_parse_time_hm, 4, 0);
time_text_roundtrip!(c12_parse_time_hms, 6, 0);
time_text_roundtrip!(c12_parse_time_hms_f1, 6, 1);
time_text_roundtrip!(c12_parse_time_hms_f3, 6, 3);
time_text_roundtrip!(c12_parse_time_hms_f6, 6, 6);
