//! Exhaustive stand-in for C15 (labelled: enumeration of the compiled code, not a deductive proof):
//! for EVERY one of the 2^32 tags, compare the real `StandardDataDictionary::by_tag` with the
//! precedence of the property statement evaluated over the published table, which is read
//! independently from the *text* of dictionary-std/src/tags.rs (constants + ENTRIES rows). Then: every
//! keyword of the table resolves (by_name / by_expr / parse_tag) to an entry with that keyword and tag, near-miss
//! spellings resolve to nothing, the three text forms of a tag resolve to its entry, and every row of the SOP
//! class table (text of uids.rs) is found by UID and by keyword as the same entry.
use dicom_core::dictionary::{DataDictionary, DataDictionaryEntry, TagRange};
use dicom_core::Tag;
use dicom_dictionary_std::StandardDataDictionary;
use std::collections::HashMap;
use std::sync::atomic::{AtomicU64, Ordering};
use std::sync::Mutex;

#[derive(Clone, Copy, PartialEq, Eq, Debug)]
enum Kind { Single, Group100, Element100 }

fn parse_tag(s: &str) -> Option<(u16, u16)> {
    // "Tag(0x6000, 0x3000)"
    let a = s.find("Tag(")? + 4;
    let b = s[a..].find(')')? + a;
    let mut it = s[a..b].split(',').map(|x| u16::from_str_radix(x.trim().trim_start_matches("0x"), 16).ok());
    Some((it.next()??, it.next()??))
}

fn main() {
    let text = std::fs::read_to_string("/repo/dictionary-std/src/tags.rs").expect("tags.rs");
    // 1. constants
    let mut consts: HashMap<String, (Kind, (u16, u16))> = HashMap::new();
    for ln in text.lines() {
        let ln = ln.trim();
        if let Some(rest) = ln.strip_prefix("pub const ") {
            if let Some(colon) = rest.find(':') {
                let name = rest[..colon].trim().to_string();
                let rhs = &rest[colon + 1..];
                let kind = if rhs.contains("Group100(") { Kind::Group100 } else if rhs.contains("Element100(") { Kind::Element100 } else { Kind::Single };
                if rhs.trim_start().starts_with("Tag ") || rhs.trim_start().starts_with("Tag=") || rhs.contains(": Tag") || rhs.trim_start().starts_with("Tag") || rhs.trim_start().starts_with("TagRange") {
                    if let Some(t) = parse_tag(rhs) { consts.insert(name, (kind, t)); }
                }
            }
        }
    }
    // 2. ENTRIES rows
    let start = text.find("const ENTRIES").expect("ENTRIES");
    let mut table: Vec<(Kind, (u16, u16), String)> = Vec::new();
    for ln in text[start..].lines() {
        let ln = ln.trim();
        if !ln.starts_with("E {") { continue; }
        let a = ln.find("tag:").unwrap() + 4;
        let b = ln.find(", alias:").unwrap();
        let tagexpr = ln[a..b].trim();
        let alias = { let x = ln.find("alias: \"").unwrap() + 8; let y = ln[x..].find('"').unwrap() + x; ln[x..y].to_string() };
        let (kind, t) = if let Some(inner) = tagexpr.strip_prefix("Single(") {
            let name = inner.trim_end_matches(')');
            (Kind::Single, consts.get(name).map(|c| c.1).or_else(|| parse_tag(inner)).expect("const"))
        } else if tagexpr.starts_with("Group100(") {
            (Kind::Group100, parse_tag(tagexpr).expect("tag"))
        } else if tagexpr.starts_with("Element100(") {
            (Kind::Element100, parse_tag(tagexpr).expect("tag"))
        } else {
            let c = consts.get(tagexpr).unwrap_or_else(|| panic!("unknown const {}", tagexpr));
            (c.0, c.1)
        };
        table.push((kind, t, alias));
    }
    assert!(table.len() > 4000, "table parsed: {} rows", table.len());
    let key = |t: (u16, u16)| ((t.0 as u32) << 16) | t.1 as u32;
    let mut exact: HashMap<u32, usize> = HashMap::new();
    let mut g100: HashMap<u32, usize> = HashMap::new();
    let mut e100: HashMap<u32, usize> = HashMap::new();
    for (i, (k, t, _)) in table.iter().enumerate() {
        exact.insert(key(*t), i); // every entry is an exact entry for the tag it is published under
        match k { Kind::Group100 => { g100.insert(key(*t), i); } Kind::Element100 => { e100.insert(key(*t), i); } _ => {} }
    }
    // 3. all 2^32 tags, 16 workers
    let mismatches = AtomicU64::new(0);
    let shown = Mutex::new(Vec::<String>::new());
    let nthreads = 16u32;
    std::thread::scope(|s| {
        for w in 0..nthreads {
            let (exact, g100, e100, table, mismatches, shown) = (&exact, &g100, &e100, &table, &mismatches, &shown);
            s.spawn(move || {
                let dict = StandardDataDictionary;
                let mut g = w;
                while g <= 0xFFFF {
                    for e in 0u32..=0xFFFF {
                        let (g16, e16) = (g as u16, e as u16);
                        let k = (g << 16) | e;
                        // the statement's precedence
                        let kname = |k: Kind| match k { Kind::Single => "Single", Kind::Group100 => "Group100", Kind::Element100 => "Element100" };
                        let spec: Option<(&str, &str)> = if let Some(&i) = exact.get(&k) { Some((kname(table[i].0), table[i].2.as_str())) }
                            else if let Some(&i) = g100.get(&(((g & 0xFF00) << 16) | e)) { Some((kname(table[i].0), table[i].2.as_str())) }
                            else if let Some(&i) = e100.get(&((g << 16) | (e & 0xFF00))) { Some((kname(table[i].0), table[i].2.as_str())) }
                            else if g & 1 == 1 && (0x0010..=0x00FF).contains(&e) { Some(("PrivateCreator", "PrivateCreator")) }
                            else if e == 0 { Some(("GroupLength", "GenericGroupLength")) }
                            else { None };
                        let got = dict.by_tag(Tag(g16, e16)).map(|en| {
                            let kind = match en.tag_range() { TagRange::Single(_) => "Single", TagRange::Group100(_) => "Group100", TagRange::Element100(_) => "Element100", TagRange::GroupLength => "GroupLength", TagRange::PrivateCreator => "PrivateCreator" };
                            (kind, en.alias())
                        });
                        let same = match (&spec, &got) { (None, None) => true, (Some(a), Some(b)) => a.0 == b.0 && a.1 == b.1, _ => false };
                        if !same {
                            mismatches.fetch_add(1, Ordering::Relaxed);
                            let mut sh = shown.lock().unwrap();
                            if sh.len() < 6 { sh.push(format!("WITNESS unit=C15.exhaustive tag=({:04X},{:04X}) by_tag={:?} prescribed={:?}", g16, e16, got, spec)); }
                        }
                    }
                    g += nthreads;
                }
            });
        }
    });
    for l in shown.lock().unwrap().iter() { println!("{}", l); }
    // 4. keywords: every row's keyword resolves to an entry with that keyword and (one of) the tag(s) published under it;
    //    by_expr / parse_tag agree for the keyword and for the three text forms of the tag
    let mut extra_cases = 0u64;
    let mut extra_bad = 0u64;
    let mut complain = |msg: String, extra_bad: &mut u64| { *extra_bad += 1; if *extra_bad <= 6 { println!("WITNESS unit=C15.exhaustive {}", msg); } };
    let dict = StandardDataDictionary;
    let mut by_alias: HashMap<&str, Vec<(Kind, (u16, u16))>> = HashMap::new();
    for (k, t, a) in &table { by_alias.entry(a.as_str()).or_default().push((*k, *t)); }
    for (alias, rows) in &by_alias {
        extra_cases += 1;
        match dict.by_name(alias) {
            Some(en) => {
                let t = en.tag_range().inner();
                if en.alias() != *alias || !rows.iter().any(|(_, rt)| *rt == (t.0, t.1)) { complain(format!("by_name({:?}) = {:?} {}, table has {:?}", alias, en.alias(), t, rows), &mut extra_bad); }
                if dict.by_expr(alias).map(|e| (e.alias(), e.tag_range().inner())) != Some((en.alias(), t)) { complain(format!("by_expr({:?}) disagrees with by_name", alias), &mut extra_bad); }
                if dict.parse_tag(alias) != Some(en.tag()) { complain(format!("parse_tag({:?}) = {:?}, by_name gives {}", alias, dict.parse_tag(alias), en.tag()), &mut extra_bad); }
            }
            None => complain(format!("by_name({:?}) finds nothing", alias), &mut extra_bad),
        }
        for variant in [alias.to_lowercase(), alias.to_uppercase(), format!("{} ", alias), format!(" {}", alias)] {
            if variant != *alias && !by_alias.contains_key(variant.as_str()) && dict.by_name(&variant).is_some() { complain(format!("by_name({:?}) finds an entry although no keyword is spelled like that", variant), &mut extra_bad); }
        }
    }
    // the two generic entries that are not rows of the table (private creator, generic group length): what by_tag answers with is an
    // entry too, so its keyword must be found again, as the same entry
    for probe in [Tag(0x0009, 0x0010), Tag(0x0029, 0x00FF), Tag(0x0009, 0x0000), Tag(0x0012, 0x0000), Tag(0x7FDF, 0x0000)] {
        extra_cases += 1;
        match dict.by_tag(probe) {
            Some(e) => match dict.by_name(e.alias()) {
                Some(back) if back.alias() == e.alias() && back.tag_range().inner() == e.tag_range().inner() => {}
                other => complain(format!("by_tag({}) answers with the entry {:?}, but by_name({:?}) = {:?}", probe, e.alias(), e.alias(), other.map(|x| x.alias())), &mut extra_bad),
            },
            None => complain(format!("by_tag({}) finds nothing (private creator / group length rule)", probe), &mut extra_bad),
        }
    }
    for (k, t, alias) in table.iter().filter(|r| r.0 == Kind::Single).step_by(7) {
        extra_cases += 1;
        let _ = k;
        for text in [format!("({:04X},{:04X})", t.0, t.1), format!("{:04x},{:04x}", t.0, t.1), format!("{:04X}{:04X}", t.0, t.1)] {
            match dict.by_expr(&text) { Some(e) if e.alias() == alias.as_str() => {} other => complain(format!("by_expr({:?}) = {:?}, expected {}", text, other.map(|e| e.alias()), alias), &mut extra_bad) }
            if dict.parse_tag(&text) != Some(Tag(t.0, t.1)) { complain(format!("parse_tag({:?}) = {:?}", text, dict.parse_tag(&text)), &mut extra_bad); }
        }
    }
    // 5. SOP class dictionary: every row of SOP_CLASSES in the text of uids.rs is found by UID and by keyword, as the same entry
    {
        use dicom_core::dictionary::{UidDictionary, UidDictionaryEntry};
        use dicom_dictionary_std::StandardSopClassDictionary;
        let utext = std::fs::read_to_string("/repo/dictionary-std/src/uids.rs").expect("uids.rs");
        let a = utext.find("const SOP_CLASSES").expect("SOP_CLASSES");
        let b = utext[a..].find("];").unwrap() + a;
        let mut rows = 0;
        let mut uids_seen: HashMap<String, String> = HashMap::new();
        for ln in utext[a..b].lines() {
            let ln = ln.trim();
            if !ln.starts_with("E::new(") { continue; }
            let parts: Vec<&str> = ln.split('"').collect();
            if parts.len() < 6 { continue; }
            let (uid, name, kw) = (parts[1], parts[3], parts[5]);
            rows += 1;
            extra_cases += 1;
            if let Some(prev) = uids_seen.insert(uid.to_string(), kw.to_string()) { complain(format!("SOP class UID {} published twice ({} and {})", uid, prev, kw), &mut extra_bad); }
            let d = StandardSopClassDictionary;
            match (d.by_uid(uid), d.by_keyword(kw)) {
                (Some(x), Some(y)) => {
                    if x.uid() != uid || x.alias() != kw || x.name() != name || y.uid() != uid || y.alias() != kw { complain(format!("SOP class {} / {}: by_uid gives ({}, {}), by_keyword gives ({}, {})", uid, kw, x.uid(), x.alias(), y.uid(), y.alias()), &mut extra_bad); }
                }
                (x, y) => complain(format!("SOP class {} / {}: by_uid found={} by_keyword found={}", uid, kw, x.is_some(), y.is_some()), &mut extra_bad),
            }
        }
        if rows < 100 { complain(format!("only {} SOP class rows parsed from uids.rs", rows), &mut extra_bad); }
    }
    println!("EXHAUSTIVE unit=C15.exhaustive cases={} table_rows={} mismatches={}", 4294967296u64 + extra_cases, table.len(), mismatches.load(Ordering::Relaxed) + extra_bad);
}
