//! Native stand-in for further entry points named by C05, on the compiled code (not a deductive result; bounded):
//!  (4) DICOM JSON: every truncation and every single-character replacement (by one of { } [ ] " : , 0 x \ and a
//!      multi-byte character) of the DICOM JSON text of two small objects, through dicom_json::from_str;
//!  (5) dumping: every data set obtained from a single-byte mutation of a small Explicit VR LE data set that still
//!      reads, through dicom_dump::dump_object_to (and the unmodified objects);
//!  (6) pixel data decoding: small native (8 / 16 bit, 1 / 3 samples) and RLE-encapsulated images whose image
//!      attributes are replaced one at a time by hostile values (0, 1, 3, 7, 17, 65535; unknown photometric
//!      interpretations; frame counts 0 / 2 / 1000) and whose pixel data is cut short, through
//!      dicom_pixeldata::PixelDecoder::decode_pixel_data and decode_pixel_data_frame.
//!  (7) the collector reader (file meta, data set up to the pixel data, offset table, fragments, rest) on every
//!      truncation and single-byte mutation (to 00 / 01) of two complete files.
//! A value or an error — never a panic. Any panic is reported with the input that caused it.
use dicom_core::value::{DataSetSequence, PixelFragmentSequence, Value};
use dicom_core::{dicom_value, DataElement, Length, PrimitiveValue, Tag, VR};
use dicom_object::{FileMetaTableBuilder, InMemDicomObject};
use dicom_pixeldata::PixelDecoder;
use dicom_transfer_syntax_registry::entries;
use std::panic::{catch_unwind, AssertUnwindSafe};

struct Tally { cases: u64, bad: u64 }
impl Tally {
    fn fail(&mut self, what: String) { self.bad += 1; if self.bad <= 10 { println!("WITNESS unit=C05.hostile2 {}", what); } }
}

fn small_object() -> InMemDicomObject {
    let item = InMemDicomObject::from_element_iter([
        DataElement::new(Tag(0x0008, 0x1150), VR::UI, PrimitiveValue::from("1.2.840.10008.5.1.4.1.1.7")),
        DataElement::new(Tag(0x0008, 0x1155), VR::UI, PrimitiveValue::from("1.2.3.4.5")),
    ]);
    InMemDicomObject::from_element_iter([
        DataElement::new(Tag(0x0008, 0x0018), VR::UI, PrimitiveValue::from("2.25.123")),
        DataElement::new(Tag(0x0008, 0x0020), VR::DA, PrimitiveValue::from("19991231")),
        DataElement::new(Tag(0x0008, 0x1115), VR::SQ, Value::from(DataSetSequence::new(vec![item], Length::UNDEFINED))),
        DataElement::new(Tag(0x0010, 0x0010), VR::PN, PrimitiveValue::from("Doe^John=Ideo=Phon")),
        DataElement::new(Tag(0x0010, 0x1030), VR::DS, PrimitiveValue::from("70.5")),
        DataElement::new(Tag(0x0020, 0x0013), VR::IS, PrimitiveValue::from("7")),
        DataElement::new(Tag(0x0028, 0x0009), VR::AT, PrimitiveValue::Tags([Tag(0x0018, 0x1063)].into_iter().collect())),
        DataElement::new(Tag(0x0028, 0x0010), VR::US, dicom_value!(U16, [2])),
        DataElement::new(Tag(0x0018, 0x9087), VR::FD, dicom_value!(F64, [1.5])),
        DataElement::new(Tag(0x0042, 0x0011), VR::OB, dicom_value!(U8, [1, 2, 3])),
    ])
}

fn image(bits: u16, spp: u16, frames: u32, rle: bool) -> InMemDicomObject {
    let (rows, cols) = (2u16, 3u16);
    let n = rows as usize * cols as usize * spp as usize * (bits as usize / 8) * frames as usize;
    let mut elems = vec![
        DataElement::new(Tag(0x0008, 0x0016), VR::UI, PrimitiveValue::from("1.2.840.10008.5.1.4.1.1.7")),
        DataElement::new(Tag(0x0008, 0x0018), VR::UI, PrimitiveValue::from("2.25.5")),
        DataElement::new(Tag(0x0028, 0x0002), VR::US, dicom_value!(U16, [spp])),
        DataElement::new(Tag(0x0028, 0x0004), VR::CS, PrimitiveValue::from(if spp == 1 { "MONOCHROME2" } else { "RGB" })),
        DataElement::new(Tag(0x0028, 0x0006), VR::US, dicom_value!(U16, [0])),
        DataElement::new(Tag(0x0028, 0x0008), VR::IS, PrimitiveValue::from(frames.to_string())),
        DataElement::new(Tag(0x0028, 0x0010), VR::US, dicom_value!(U16, [rows])),
        DataElement::new(Tag(0x0028, 0x0011), VR::US, dicom_value!(U16, [cols])),
        DataElement::new(Tag(0x0028, 0x0100), VR::US, dicom_value!(U16, [bits])),
        DataElement::new(Tag(0x0028, 0x0101), VR::US, dicom_value!(U16, [bits])),
        DataElement::new(Tag(0x0028, 0x0102), VR::US, dicom_value!(U16, [bits - 1])),
        DataElement::new(Tag(0x0028, 0x0103), VR::US, dicom_value!(U16, [0])),
    ];
    if rle {
        // one RLE fragment per frame: header with one segment per byte plane, each a literal run
        let planes = spp as usize * (bits as usize / 8);
        let px = rows as usize * cols as usize;
        let mut frags = Vec::new();
        for _ in 0..frames {
            let mut header = vec![0u8; 64];
            header[0..4].copy_from_slice(&(planes as u32).to_le_bytes());
            let mut body = Vec::new();
            for k in 0..planes {
                header[4 + 4 * k..8 + 4 * k].copy_from_slice(&((64 + body.len()) as u32).to_le_bytes());
                body.push((px - 1) as u8);
                body.extend((0..px).map(|i| (i + k) as u8));
                if body.len() % 2 == 1 { body.push(0x80); }
            }
            header.extend(body);
            frags.push(header);
        }
        elems.push(DataElement::new(Tag(0x7FE0, 0x0010), VR::OB, Value::from(PixelFragmentSequence::new(vec![], frags))));
    } else {
        elems.push(DataElement::new(Tag(0x7FE0, 0x0010), VR::OW, PrimitiveValue::from((0..n).map(|i| i as u8).collect::<Vec<u8>>())));
    }
    InMemDicomObject::from_element_iter(elems)
}

fn main() {
    std::panic::set_hook(Box::new(|_| {}));
    let mut t = Tally { cases: 0, bad: 0 };
    // (4) JSON
    for obj in [small_object(), image(8, 1, 1, false)] {
        let text = match dicom_json::to_string(&obj) { Ok(x) => x, Err(e) => { t.fail(format!("to_string failed: {}", e)); continue; } };
        let chars: Vec<char> = text.chars().collect();
        let try_text = |t: &mut Tally, s: String, how: String| {
            t.cases += 1;
            if catch_unwind(|| { let _ = dicom_json::from_str::<InMemDicomObject>(&s); }).is_err() { t.fail(format!("dicom_json::from_str panicked ({}): {}", how, s.chars().take(300).collect::<String>())); }
        };
        for cut in 0..chars.len() { try_text(&mut t, chars[..cut].iter().collect(), format!("truncated to {} characters", cut)); }
        for i in 0..chars.len() {
            for c in ['{', '}', '[', ']', '"', ':', ',', '0', 'x', '\\', 'é'] {
                if chars[i] == c { continue; }
                let mut v = chars.clone();
                v[i] = c;
                try_text(&mut t, v.iter().collect(), format!("character {} replaced by {:?}", i, c));
            }
        }
        // typed surprises: values of the wrong JSON type under each VR
        for vr in ["AE", "AT", "DA", "DS", "FD", "IS", "OB", "PN", "SQ", "UI", "US", "UN", "XX"] {
            for value in ["[1]", "[\"x\"]", "[1.5e400]", "[-1]", "[null]", "[{}]", "[[1]]", "\"x\"", "{}", "[{\"Alphabetic\":1}]", "[{\"00100010\":{\"vr\":\"PN\"}}]", "[4294967296]", "[\"0008\"]"] {
                for key in ["Value", "InlineBinary", "BulkDataURI"] {
                    try_text(&mut t, format!("{{\"00100010\":{{\"vr\":\"{}\",\"{}\":{}}}}}", vr, key, value), format!("vr {} with {} = {}", vr, key, value));
                }
            }
        }
        for key in ["", "0010", "001000100", "GGGG0010", "0010,0010", "PatientName", "é0100010"] {
            try_text(&mut t, format!("{{\"{}\":{{\"vr\":\"PN\",\"Value\":[{{\"Alphabetic\":\"A\"}}]}}}}", key), format!("key {:?}", key));
        }
    }
    // (5) dump
    {
        let obj = small_object();
        let ts = entries::EXPLICIT_VR_LITTLE_ENDIAN.erased();
        let mut bytes = Vec::new();
        obj.write_dataset_with_ts(&mut bytes, &ts).expect("write");
        let mut m = bytes.clone();
        for i in 0..bytes.len() {
            for v in [0x00u8, 0x01, 0x20, 0x5C, 0x7F, 0xE9] {
                if bytes[i] == v { continue; }
                m[i] = v;
                if let Ok(Ok(o)) = catch_unwind(AssertUnwindSafe(|| InMemDicomObject::read_dataset_with_ts(&m[..], &ts))) {
                    t.cases += 1;
                    let mut sink = Vec::new();
                    if catch_unwind(AssertUnwindSafe(|| { let _ = dicom_dump::DumpOptions::new().dump_object_to(&mut sink, &o); })).is_err() {
                        t.fail(format!("dump_object_to panicked on the object read from the data set with byte {} changed to {:02X}", i, v));
                    }
                    if catch_unwind(AssertUnwindSafe(|| { let _ = dicom_json::to_string(&o); })).is_err() {
                        t.fail(format!("dicom_json::to_string panicked on the object read from the data set with byte {} changed to {:02X}", i, v));
                    }
                }
            }
            m[i] = bytes[i];
        }
    }
    // (6) pixel data decoding with hostile image attributes
    let hostile_u16: [u16; 8] = [0, 1, 3, 7, 9, 17, 32, 65535];
    for (bits, spp, frames, rle) in [(8u16, 1u16, 1u32, false), (16, 1, 2, false), (8, 3, 1, false), (8, 1, 1, true), (16, 1, 2, true), (8, 3, 1, true)] {
        let base = image(bits, spp, frames, rle);
        let ts_uid = if rle { "1.2.840.10008.1.2.5" } else { "1.2.840.10008.1.2.1" };
        let mut variants: Vec<(String, InMemDicomObject)> = vec![("unchanged".to_string(), base.clone())];
        for tag in [Tag(0x0028, 0x0002), Tag(0x0028, 0x0006), Tag(0x0028, 0x0010), Tag(0x0028, 0x0011), Tag(0x0028, 0x0100), Tag(0x0028, 0x0101), Tag(0x0028, 0x0102), Tag(0x0028, 0x0103)] {
            for v in hostile_u16 {
                let mut o = base.clone();
                o.put(DataElement::new(tag, VR::US, dicom_value!(U16, [v])));
                variants.push((format!("{} = {}", tag, v), o));
            }
            let mut o = base.clone();
            o.remove_element(tag);
            variants.push((format!("{} absent", tag), o));
        }
        for pi in ["MONOCHROME1", "PALETTE COLOR", "YBR_FULL", "YBR_FULL_422", "RGB", "MONOCHROME2", "", "XYZ"] {
            let mut o = base.clone();
            o.put(DataElement::new(Tag(0x0028, 0x0004), VR::CS, PrimitiveValue::from(pi)));
            variants.push((format!("photometric interpretation {:?}", pi), o));
        }
        for (tag, vr, vals) in [(Tag(0x0028, 0x1053), VR::DS, vec!["0", "-1", "1e308", "nan", "inf", "", "x"]), (Tag(0x0028, 0x1052), VR::DS, vec!["-1e308", "1e308", "nan", "x"]),
                                (Tag(0x0028, 0x1050), VR::DS, vec!["0", "-5", "1e308", "nan", "x", "1\\2"]), (Tag(0x0028, 0x1051), VR::DS, vec!["0", "-1", "1e-320", "nan", "x", "1\\2"]),
                                (Tag(0x0028, 0x1056), VR::CS, vec!["SIGMOID", "LINEAR_EXACT", "GARBAGE", ""])] {
            for v in vals {
                let mut o = base.clone();
                o.put(DataElement::new(Tag(0x0028, 0x1050), VR::DS, PrimitiveValue::from("3")));
                o.put(DataElement::new(Tag(0x0028, 0x1051), VR::DS, PrimitiveValue::from("4")));
                o.put(DataElement::new(tag, vr, PrimitiveValue::from(v)));
                variants.push((format!("{} = {:?}", tag, v), o));
            }
        }
        for nf in ["0", "2", "1000", "-1", "x", ""] {
            let mut o = base.clone();
            o.put(DataElement::new(Tag(0x0028, 0x0008), VR::IS, PrimitiveValue::from(nf)));
            variants.push((format!("number of frames {:?}", nf), o));
        }
        if !rle {
            for keep in [0usize, 1, 5, 11] {
                let mut o = base.clone();
                o.put(DataElement::new(Tag(0x7FE0, 0x0010), VR::OW, PrimitiveValue::from((0..keep).map(|i| i as u8).collect::<Vec<u8>>())));
                variants.push((format!("pixel data of {} bytes", keep), o));
            }
        } else {
            for (what, frag) in [("an empty fragment", vec![]), ("a 10-byte fragment", vec![1u8; 10]), ("a header announcing 15 segments", { let mut h = vec![0u8; 64]; h[0] = 15; h }),
                                 ("a header with an offset beyond the fragment", { let mut h = vec![0u8; 66]; h[0] = 1; h[4] = 0xFF; h[5] = 0xFF; h }),
                                 ("a replicate run longer than the frame", { let mut h = vec![0u8; 64]; h[0] = 1; h[4] = 64; h.extend_from_slice(&[0x81, 7]); h })] {
                let mut o = base.clone();
                o.put(DataElement::new(Tag(0x7FE0, 0x0010), VR::OB, Value::from(PixelFragmentSequence::new(vec![], vec![frag.clone(); frames as usize]))));
                variants.push((format!("RLE pixel data made of {}", what), o));
            }
        }
        for (how, o) in variants {
            t.cases += 1;
            let file = match o.with_meta(FileMetaTableBuilder::new().transfer_syntax(ts_uid)) { Ok(f) => f, Err(_) => continue };
            let label = format!("image {} bit x {} samples x {} frames{}, {}", bits, spp, frames, if rle { " (RLE)" } else { "" }, how);
            if catch_unwind(AssertUnwindSafe(|| {
                if let Ok(d) = file.decode_pixel_data() {
                    // whatever was decoded can be sliced into frames. (The value conversions `to_vec*` are NOT exercised here: they are not
                    // "decoding" in the sense of the statement, and Lut::new_with_fn documents a panic for Bits Stored = 0 or > 32, which
                    // to_vec reaches with a hostile Bits Stored — noted in DESIGN.md as an observation outside the property.)
                    let _ = d.frame_data(0); let _ = d.frame_data(1); let _ = d.frame_data(1000);
                }
            })).is_err() { t.fail(format!("decode_pixel_data + frame slicing panicked: {}", label)); }
            for f in [0u32, 1, 7] {
                if catch_unwind(AssertUnwindSafe(|| { let _ = file.decode_pixel_data_frame(f); })).is_err() { t.fail(format!("decode_pixel_data_frame({}) panicked: {}", f, label)); }
            }
        }
    }
    // (7) the collector reader on every truncation and single-byte mutation (to 00 / 01) of two complete files
    {
        use dicom_object::collector::DicomCollector;
        use std::io::BufReader;
        for with_pixels in [false, true] {
            let mut o = image(8, 1, 2, with_pixels);
            o.put(DataElement::new(Tag(0x0008, 0x1115), VR::SQ, Value::from(DataSetSequence::new(vec![small_object()], Length::UNDEFINED))));
            let file = o.with_meta(FileMetaTableBuilder::new().transfer_syntax(if with_pixels { "1.2.840.10008.1.2.5" } else { "1.2.840.10008.1.2.1" })).expect("meta");
            let mut bytes = Vec::new();
            file.write_all(&mut bytes).expect("write file");
            let mut inputs: Vec<(Vec<u8>, String)> = (0..bytes.len()).map(|c| (bytes[..c].to_vec(), format!("truncated to {} bytes", c))).collect();
            for i in 128..bytes.len() { for v in [0x00u8, 0x01] { if bytes[i] != v { let mut m = bytes.clone(); m[i] = v; inputs.push((m, format!("byte {} changed to {:02X}", i, v))); } } }
            for (m, how) in inputs {
                t.cases += 1;
                let r = catch_unwind(AssertUnwindSafe(|| {
                    let mut c = DicomCollector::new(BufReader::new(std::io::Cursor::new(&m[..])));
                    let _ = c.read_file_meta();
                    let mut part = InMemDicomObject::new_empty();
                    let _ = c.read_dataset_up_to_pixeldata(&mut part);
                    let mut table = Vec::new();
                    let _ = c.read_basic_offset_table(&mut table);
                    let mut frag = Vec::new();
                    for _ in 0..4 { if !matches!(c.read_next_fragment(&mut frag), Ok(Some(_))) { break; } }
                    let mut rest = InMemDicomObject::new_empty();
                    let _ = c.read_dataset_to_end(&mut rest);
                }));
                if r.is_err() { t.fail(format!("DicomCollector panicked on a file ({}): {}", how, m.iter().skip(128).take(120).map(|x| format!("{:02X}", x)).collect::<String>())); }
            }
        }
    }
    // garbage fragments under every encapsulated transfer syntax that has a decoder in this build
    for ts_uid in ["1.2.840.10008.1.2.4.50", "1.2.840.10008.1.2.4.51", "1.2.840.10008.1.2.4.57", "1.2.840.10008.1.2.4.70", "1.2.840.10008.1.2.5", "1.2.840.10008.1.2.1.98",
                   "1.2.840.10008.1.2.4.90", "1.2.840.10008.1.2.4.80", "1.2.840.10008.1.2.4.100", "1.2.840.10008.1.2.4.201"] {
        for (what, frag) in [("an empty fragment", vec![]), ("ten zero bytes", vec![0u8; 10]), ("a lone SOI marker", vec![0xFF, 0xD8]), ("SOI + EOI", vec![0xFF, 0xD8, 0xFF, 0xD9]),
                             ("SOI + truncated SOF0", vec![0xFF, 0xD8, 0xFF, 0xC0, 0x00, 0x11, 0x08, 0x00]), ("six bytes of image data", vec![1, 2, 3, 4, 5, 6]), ("255 x 0xFF", vec![0xFF; 255])] {
            for frames in [1u32, 2] {
                t.cases += 1;
                let mut o = image(8, 1, frames, false);
                o.put(DataElement::new(Tag(0x7FE0, 0x0010), VR::OB, Value::from(PixelFragmentSequence::new(vec![], vec![frag.clone(); frames as usize]))));
                let file = match o.with_meta(FileMetaTableBuilder::new().transfer_syntax(ts_uid)) { Ok(f) => f, Err(_) => continue };
                let label = format!("transfer syntax {}, {} frame(s), pixel data made of {}", ts_uid, frames, what);
                if catch_unwind(AssertUnwindSafe(|| { let _ = file.decode_pixel_data(); })).is_err() { t.fail(format!("decode_pixel_data panicked: {}", label)); }
                if catch_unwind(AssertUnwindSafe(|| { let _ = file.decode_pixel_data_frame(0); let _ = file.decode_pixel_data_frame(1); })).is_err() { t.fail(format!("decode_pixel_data_frame panicked: {}", label)); }
            }
        }
    }
    println!("EXHAUSTIVE unit=C05.hostile2 cases={} mismatches={}", t.cases, t.bad);
}
