//! Native stand-in for the "never aborts" clause of C05 on the compiled code (not a deductive result; bounded):
//! sequences nested to depth d (d = 10 .. 200 000) — a sequence element of undefined length holding one item of
//! undefined length holding the next sequence, and the same shape as DICOM JSON — through the eager reader
//! (InMemDicomObject::read_dataset_with_ts in Implicit VR LE / Explicit VR LE / Explicit VR BE, then dumping and
//! dropping what was read), the token reader on its own (DataSetReader), the lazy reader, a complete file through
//! from_reader, and dicom_json::from_str. A stack overflow is an ABORT of the process, which catch_unwind cannot
//! see: every case runs in a child process (this program re-executed with `child ...`; the case runs in a thread
//! with a fixed 8 MiB stack, the usual main thread size) which reports the stage it is in (read, dump, drop), and a
//! child that dies from a signal is reported, every one of them on a line of its own. A value or an error is fine.
use dicom_encoding::transfer_syntax::TransferSyntaxIndex;
use dicom_object::InMemDicomObject;
use dicom_parser::dataset::lazy_read::LazyDataSetReader;
use dicom_parser::dataset::read::DataSetReader;
use dicom_transfer_syntax_registry::TransferSyntaxRegistry;
use std::io::Cursor;

fn nested(depth: usize, ts: &str, closed: bool) -> Vec<u8> {
    let (implicit, be) = (ts == "1.2.840.10008.1.2", ts == "1.2.840.10008.1.2.2");
    let u16b = |v: u16| if be { v.to_be_bytes() } else { v.to_le_bytes() };
    let mut out = Vec::with_capacity(depth * 40);
    for _ in 0..depth {
        out.extend_from_slice(&u16b(0x0008)); out.extend_from_slice(&u16b(0x1140));
        if !implicit { out.extend_from_slice(b"SQ"); out.extend_from_slice(&[0, 0]); }
        out.extend_from_slice(&[0xFF; 4]);
        out.extend_from_slice(&u16b(0xFFFE)); out.extend_from_slice(&u16b(0xE000)); out.extend_from_slice(&[0xFF; 4]);
    }
    if closed {
        for _ in 0..depth {
            out.extend_from_slice(&u16b(0xFFFE)); out.extend_from_slice(&u16b(0xE00D)); out.extend_from_slice(&[0; 4]);
            out.extend_from_slice(&u16b(0xFFFE)); out.extend_from_slice(&u16b(0xE0DD)); out.extend_from_slice(&[0; 4]);
        }
    }
    out
}

fn nested_json(depth: usize) -> String {
    let mut s = String::new();
    for _ in 0..depth { s.push_str("{\"00081140\":{\"vr\":\"SQ\",\"Value\":["); }
    s.push_str("{}");
    for _ in 0..depth { s.push_str("]}}"); }
    s
}

fn child(what: &str, depth: usize, ts_uid: &str, closed: bool) {
    let data = nested(depth, ts_uid, closed);
    let ts = TransferSyntaxRegistry.get(ts_uid).expect("ts");
    match what {
        "eager" => { eprintln!("STAGE read"); match InMemDicomObject::read_dataset_with_ts(&data[..], ts) {
            Ok(obj) => {
                eprintln!("STAGE dump");
                let mut sink = Vec::new();
                let _ = dicom_dump::DumpOptions::new().dump_object_to(&mut sink, &obj);
                eprintln!("STAGE drop");
                drop(obj);
                println!("OK");
            }
            Err(_) => println!("ERR"),
        } },
        "tokens" => { eprintln!("STAGE read"); match DataSetReader::new_with_ts(&data[..], ts) {
            Ok(r) => { let mut n = 0u64; for t in r { if t.is_err() { break; } n += 1; } println!("OK {}", n); }
            Err(_) => println!("ERR"),
        } },
        "lazy" => { eprintln!("STAGE read"); match LazyDataSetReader::new_with_ts(Cursor::new(&data[..]), ts) {
            Ok(mut r) => { let mut n = 0u64; while let Some(t) = r.advance() { match t { Ok(t) => { if t.skip().is_err() { break; } n += 1; } Err(_) => break } } println!("OK {}", n); }
            Err(_) => println!("ERR"),
        } },
        "file" => {
            let mut bytes = Vec::new();
            let meta = dicom_object::FileMetaTableBuilder::new().transfer_syntax(ts_uid).media_storage_sop_class_uid("1.2.840.10008.5.1.4.1.1.7").media_storage_sop_instance_uid("2.25.1").build().expect("meta");
            bytes.extend_from_slice(&[0u8; 128]); bytes.extend_from_slice(b"DICM");
            meta.write(&mut bytes).expect("meta write");
            bytes.extend_from_slice(&data);
            eprintln!("STAGE read");
            match dicom_object::from_reader(&bytes[..]) { Ok(o) => { eprintln!("STAGE drop"); drop(o); println!("OK") } Err(_) => println!("ERR") }
        }
        "json" => { eprintln!("STAGE read"); match dicom_json::from_str::<InMemDicomObject>(&nested_json(depth)) { Ok(o) => { eprintln!("STAGE drop"); drop(o); println!("OK") } Err(_) => println!("ERR") } },
        _ => panic!("unknown child mode"),
    }
}

fn main() {
    let args: Vec<String> = std::env::args().collect();
    if args.len() >= 6 && args[1] == "child" {
        // a fixed 8 MiB stack (the usual main thread size), so that the outcome does not depend on `ulimit -s`
        let a = args.clone();
        let h = std::thread::Builder::new().stack_size(8 << 20).spawn(move || child(&a[2], a[3].parse().unwrap(), &a[4], a[5] == "closed")).expect("thread");
        if h.join().is_err() { std::process::exit(101); }
        return;
    }
    let full = args.iter().any(|a| a == "full");
    let exe = std::env::current_exe().expect("exe");
    let depths: &[usize] = if full { &[10, 100, 1000, 5000, 20000, 100000, 200000, 1000000] } else { &[10, 100, 1000, 5000, 20000, 200000] };
    let (mut cases, mut bad) = (0u64, 0u64);
    for what in ["eager", "tokens", "lazy", "file", "json"] {
        for ts in ["1.2.840.10008.1.2", "1.2.840.10008.1.2.1", "1.2.840.10008.1.2.2"] {
            if what == "json" && ts != "1.2.840.10008.1.2.1" { continue; }
            for closed in [true, false] {
                if what == "json" && !closed { continue; }
                for d in depths {
                    cases += 1;
                    let out = std::process::Command::new(&exe).args(["child", what, &d.to_string(), ts, if closed { "closed" } else { "open" }]).output();
                    match out {
                        Ok(o) if o.status.success() => {}
                        Ok(o) => {
                            bad += 1;
                            use std::os::unix::process::ExitStatusExt;
                            let err = String::from_utf8_lossy(&o.stderr);
                            let reason = if err.contains("overflowed its stack") { "stack overflow".to_string() } else { err.lines().find(|l| l.contains("panicked")).unwrap_or("").to_string() };
                            let stage = err.lines().filter_map(|l| l.strip_prefix("STAGE ")).last().unwrap_or("start").to_string();
                            println!("WITNESS unit=C05.depth reader={} ts={} depth={} {} stage={}: the process died (signal {:?}, exit code {:?}; {})",
                                what, ts, d, if closed { "delimited" } else { "unterminated" }, stage, o.status.signal(), o.status.code(), reason);
                        }
                        Err(e) => { println!("SKIPPED unit=C05.depth reason=cannot start a child process: {}", e); return; }
                    }
                }
            }
        }
    }
    println!("EXHAUSTIVE unit=C05.depth cases={} mismatches={}", cases, bad);
}
