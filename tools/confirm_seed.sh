#!/bin/sh
# usage: confirm_seed.sh <ID> <package> <test-args...>
# Confirms, in the agent's scratch worktree /tmp/seed-<ID>: demo FAILS with the patch, PASSES without it,
# and the package's own tests give the same pass list with and without the patch.
id=$1; pkg=$2; shift 2
wt=/tmp/seed-$id; out=/tmp/seed-$id-out; export CARGO_TARGET_DIR=/tmp/seed-$id-target
cd $wt || exit 9
git diff --quiet -- . && git apply $out/patch.diff   # ensure patch applied
echo "--- demo WITH patch (must fail)"
cargo test --offline -p $pkg "$@" 2>&1 | grep -E "^test result|^test .*FAILED" | head -5
git apply -R $out/patch.diff || exit 8
echo "--- demo WITHOUT patch (must pass)"
cargo test --offline -p $pkg "$@" 2>&1 | grep -E "^test result|^test .*FAILED" | head -5
echo "--- package tests WITHOUT patch"
cargo test --offline --no-fail-fast -p $pkg 2>&1 | grep -E "^test .* \.\.\. (ok|FAILED)" | grep -v "verif_demo\|demo_c26" | sort > /tmp/seed-$id-base.txt
git apply $out/patch.diff
echo "--- package tests WITH patch"
cargo test --offline --no-fail-fast -p $pkg 2>&1 | grep -E "^test .* \.\.\. (ok|FAILED)" | grep -v "verif_demo\|demo_c26\|kani_concrete" | sort > /tmp/seed-$id-patched.txt
if diff -q /tmp/seed-$id-base.txt /tmp/seed-$id-patched.txt >/dev/null; then echo "SAME test outcomes ($(grep -c ' ok$' /tmp/seed-$id-base.txt) ok)"; else echo "DIFFERENT test outcomes"; diff /tmp/seed-$id-base.txt /tmp/seed-$id-patched.txt | head; fi
